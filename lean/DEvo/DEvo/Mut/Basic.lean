import DEvo.Sig.Basic

/-! Mutations and their `simulate()` methods (django_evolution/mutations/*.py), one branch
per class, in the order the Python code performs its checks and updates. -/

namespace DEvo.Mut
open DEvo.Sig

inductive MetaVal where
  | together (v : List (List String))     -- unique_together / index_together
  | sigs (v : List Val)                   -- indexes / constraints (one canonical value per entry)
  | raw (v : Val)                         -- db_table_comment and anything else
  deriving DecidableEq, Repr, Inhabited

inductive Mutation where
  | addField (model field ftype : String) (initial : Option Val) (attrs : List (String × Val))
  | changeField (model field : String) (ftype : Option String) (initial : Option Val)
      (attrs : List (String × Val))
  | deleteField (model field : String)
  | renameField (model old new : String) (dbColumn dbTable : Option String)
  | changeMeta (model prop : String) (value : MetaVal)
  | renameModel (old new : String) (dbTable : Val)
  | deleteModel (model : String)
  | deleteApplication
  | renameAppLabel (old new : String) (legacy : Option String) (modelNames : Option (List String))
  | sqlMutation (tag : String) (canSimulate : Bool)
  deriving DecidableEq, Repr, Inhabited

inductive SimErr where
  | appNotFound | modelNotFound | fieldNotFound | fieldExists | needInitial | pkDelete
  | metaUnsupported | metaUnknown | cannotSimulate | missingSig | crash
  deriving DecidableEq, Repr, Inhabited

def SimErr.name : SimErr → String
  | .appNotFound => "app-not-found" | .modelNotFound => "model-not-found"
  | .fieldNotFound => "field-not-found" | .fieldExists => "field-exists"
  | .needInitial => "need-initial" | .pkDelete => "pk-delete"
  | .metaUnsupported => "meta-unsupported" | .metaUnknown => "meta-unknown"
  | .cannotSimulate => "cannot-simulate" | .missingSig => "missing-sig" | .crash => "crash"

/-- Parameters of the simulation that come from outside the signature. -/
structure Env where
  /-- `FieldSignature._ATTRIBUTE_DEFAULTS`: per field type (and `"*"`) → attr → default -/
  defaults : List (String × List (String × Val))
  /-- `field.db_type(connection)` on SQLite for the field types in scope -/
  dbType : String → List (String × Val) → Val
  /-- `evolver.supported_change_meta` -/
  supportedMeta : String → Bool

def Env.attrDefault (e : Env) (ftype attr : String) : Val :=
  match (dGet e.defaults ftype).bind (fun d => dGet d attr) with
  | some v => v
  | none => match (dGet e.defaults "*").bind (fun d => dGet d attr) with
    | some v => v
    | none => vNull

/-- `FieldSignature.get_attr_value(attr)` (with defaults) -/
def Env.attrValue (e : Env) (f : FieldSig) (attr : String) : Val :=
  match dGet f.attrs attr with
  | some v => v
  | none => e.attrDefault f.ftype attr

def isM2M (ftype : String) : Bool := ftype == "ManyToManyField"

/-- NOTE: the value of the pseudo-attribute `related_model` is carried *raw* (`app.Model`, or
`null`), not as JSON text; the codec converts at the protocol boundary. -/
def relatedKey : String := "related_model"

/-- JSON string literal → its content (identifiers only: no escapes occur in model/column names) -/
def unq (v : Val) : String :=
  if v.startsWith "\"" && v.endsWith "\"" && v.length ≥ 2 then ((v.drop 1).dropEnd 1).toString else v

def quo (s : String) : Val := "\"" ++ s ++ "\""

/-- simulation context: `Simulation.app_label` / `legacy_app_label` / `database` -/
structure Ctx where
  appLabel : String
  legacyAppLabel : String
  hasDatabase : Bool := true
  deriving Repr

/-- `Simulation.get_app_sig` -/
def getAppSig (c : Ctx) (p : ProjectSig) : Except SimErr AppSig :=
  match p.getApp c.appLabel with
  | some a => .ok a
  | none =>
    if c.legacyAppLabel != c.appLabel then
      match p.getApp c.legacyAppLabel with
      | some a => .ok a
      | none => .error .appNotFound
    else .error .appNotFound

def getModelSig (c : Ctx) (p : ProjectSig) (model : String) : Except SimErr (AppSig × ModelSig) := do
  let a ← getAppSig c p
  match a.getModel model with
  | some m => .ok (a, m)
  | none => .error .modelNotFound

def getFieldSig (c : Ctx) (p : ProjectSig) (model field : String) :
    Except SimErr (AppSig × ModelSig × FieldSig) := do
  let (a, m) ← getModelSig c p model
  match m.getField field with
  | some f => .ok (a, m, f)
  | none => .error .fieldNotFound

/-- `_normalize_together` is applied by the harness; here values are already lists of lists -/
def popKey (d : List (String × Val)) (k : String) : List (String × Val) := dDel d k

/-! ### model-local mutations: the new model signature is a function of the old one only -/

/-- `bool(field_attrs.get(k))` -/
def attrTruthy (attrs : List (String × Val)) (k : String) : Bool :=
  match dGet attrs k with | some v => truthy v | none => false

def simAddField (field ftype : String) (initial : Option Val) (attrs : List (String × Val))
    (m : ModelSig) : Except SimErr ModelSig :=
  if (m.getField field).isSome then .error .fieldExists
  else if !isM2M ftype && !attrTruthy attrs "null" && initial.isNone then .error .needInitial
  else
    let related := match dGet attrs "related_model" with
      | some v => if v == vNull then none else some v
      | none => none
    .ok (m.addField ⟨field, ftype, popKey attrs "related_model", related⟩)

/-- the field signature after `ChangeField.simulate` updated it in place -/
def changedField (e : Env) (f : FieldSig) (ftype : Option String) (attrs : List (String × Val)) : FieldSig :=
  let typeChanged : Bool := match ftype with
    | none => false
    | some t => if t == f.ftype then false
                else !(e.dbType f.ftype f.attrs == e.dbType t (popKey attrs "related_model"))
  { f with ftype := (match ftype with | some t => t | none => f.ftype),
           attrs := if typeChanged then attrs else dUpdate f.attrs attrs }

def changeNeedsInitial (ftype' : String) (initial : Option Val) (attrs : List (String × Val)) : Bool :=
  match dGet attrs "null" with
  | some v => !truthy v && !isM2M ftype' && initial.isNone
  | none => false

def simChangeField (e : Env) (field : String) (ftype : Option String) (initial : Option Val)
    (attrs : List (String × Val)) (m : ModelSig) : Except SimErr ModelSig :=
  match m.getField field with
  | none => .error .fieldNotFound
  | some f =>
    if changeNeedsInitial (changedField e f ftype attrs).ftype initial attrs then .error .needInitial
    else .ok (m.addField (changedField e f ftype attrs))

def simDeleteField (e : Env) (field : String) (m : ModelSig) : Except SimErr ModelSig :=
  match m.getField field with
  | none => .error .fieldNotFound
  | some f =>
    if truthy (e.attrValue f "primary_key") then .error .pkDelete
    else
      let ut := (m.uniqueTogether.map (fun entry => entry.filter (fun n => n != field))).filter
        (fun entry => !entry.isEmpty)
      .ok ({ m with uniqueTogether := ut }.removeField field)

def simRenameField (old new : String) (dbColumn dbTable : Option String) (m : ModelSig) :
    Except SimErr ModelSig :=
  match m.getField old with
  | none => .error .fieldNotFound
  | some f =>
    let attrs :=
      if isM2M f.ftype then
        match dbTable with
        | some t => if t != "" then dSet f.attrs "db_table" (quo t) else dDel f.attrs "db_table"
        | none => dDel f.attrs "db_table"
      else
        match dbColumn with
        | some c => if c != "" then dSet f.attrs "db_column" (quo c) else dDel f.attrs "db_column"
        | none => dDel f.attrs "db_column"
    let m' := (m.removeField old).addField { f with name := new, attrs := attrs }
    -- unique_together / index_together follow the field to its new name
    let ren := fun (entry : List String) => entry.map (fun n => if n == old then new else n)
    .ok { m' with uniqueTogether := m'.uniqueTogether.map ren, indexTogether := m'.indexTogether.map ren }

def simChangeMeta (e : Env) (prop : String) (value : MetaVal) (m : ModelSig) : Except SimErr ModelSig :=
  if !e.supportedMeta prop then .error .metaUnsupported
  else match prop, value with
    | "index_together", .together v => .ok { m with indexTogether := v }
    | "unique_together", .together v => .ok { m with uniqueTogether := v, utApplied := true }
    | "constraints", .sigs v => .ok { m with constraints := v }
    | "db_table_comment", .raw v => .ok { m with comment := v }
    | "indexes", .sigs v => .ok { m with indexes := v }
    | _, _ => .error .metaUnknown

/-- the model-local part of `simulate` for the five field/meta mutation classes -/
def simModelLocal (e : Env) : Mutation → Option (String × (ModelSig → Except SimErr ModelSig))
  | .addField model field ftype initial attrs => some (model, simAddField field ftype initial attrs)
  | .changeField model field ftype initial attrs => some (model, simChangeField e field ftype initial attrs)
  | .deleteField model field => some (model, simDeleteField e field)
  | .renameField model old new c t => some (model, simRenameField old new c t)
  | .changeMeta model prop v => some (model, simChangeMeta e prop v)
  | _ => none

/-- rewrite every `related_model` equal to `old` into `new` (RenameModel) -/
def rewriteRefs (p : ProjectSig) (old new : String) : ProjectSig :=
  { apps := p.apps.map (fun a => { a with models := a.models.map (fun m =>
      { m with fields := m.fields.map (fun f =>
        if f.related == some old then { f with related := some new } else f) }) }) }

/-- `RenameAppLabel.simulate`'s reference loop, with today's indexing
(`parts = related_model.split('.', 1)[1]`, then `parts[0] == old_app_label` compares the first
*character* of the model name; `parts[1]` is its second character) when `fixed = false`, and the
intended behaviour when `fixed = true`. -/
def splitDotL : List Char → Option (List Char × List Char)
  | [] => none
  | c :: r => if c = '.' then some ([], r) else (splitDotL r).map (fun ab => (c :: ab.1, ab.2))

/-- `s.split('.', 1)` when `s` contains a dot (structural, so that it reduces in the kernel) -/
def splitDot (s : String) : Option (String × String) :=
  (splitDotL s.toList).map (fun ab => (String.ofList ab.1, String.ofList ab.2))

def renameLabelRef (fixed : Bool) (old new : String) (moved : List String) (rel : String) : Except SimErr String :=
  match splitDot rel with
  | none => .error .crash          -- IndexError in Python
  | some (lbl, mdl) =>
    if fixed then
      -- repaired: `parts = rel.split('.', 1)`; only references to models that were moved
      if lbl == old && moved.contains mdl then .ok (new ++ "." ++ mdl) else .ok rel
    else
      match mdl.toList with
      | [] => .error .crash        -- IndexError
      | c0 :: rest =>
        if String.singleton c0 == old then
          match rest with
          | [] => .error .crash
          | c1 :: _ => .ok (new ++ "." ++ String.singleton c1)
        else .ok rel

def rewriteLabelRefs (fixed : Bool) (p : ProjectSig) (old new : String) (moved : List String) :
    Except SimErr ProjectSig := do
  let apps ← p.apps.mapM (fun a => do
    let models ← a.models.mapM (fun m => do
      let fields ← m.fields.mapM (fun f =>
        match f.related with
        | some r => do
          let r' ← renameLabelRef fixed old new moved r
          pure { f with related := some r' }
        | none => pure f)
      pure { m with fields := fields })
    pure { a with models := models })
  pure { apps := apps }

structure Flags where
  /-- `RenameAppLabel.simulate` rewrites references correctly (false on the unrepaired tree, F12) -/
  renameAppLabelFixed : Bool := false
  deriving Repr

/-- `mutation.run_simulation(...)`: returns the new signature and the (possibly changed) app label -/
def simulate (e : Env) (fl : Flags) (c : Ctx) (mu : Mutation) (p : ProjectSig) :
    Except SimErr (ProjectSig × Ctx) :=
  match simModelLocal e mu with
  | some (model, f) => do
    let (a, m) ← getModelSig c p model
    let m' ← f m
    pure (p.putApp (a.putModel m'), c)
  | none =>
    match mu with
    | .renameModel old new dbTable => do
      let (a, m) ← getModelSig c p old
      let m' := { m with name := new, table := dbTable }
      let a' := (a.removeModel old).addModel m'
      let p' := p.putApp a'
      pure (rewriteRefs p' (c.appLabel ++ "." ++ old) (c.appLabel ++ "." ++ new), c)
    | .deleteModel model => do
      let (a, _) ← getModelSig c p model
      pure (p.putApp (a.removeModel model), c)
    | .deleteApplication =>
      if !c.hasDatabase then pure (p, c)
      else do
        let a ← getAppSig c p
        pure (p.putApp { a with models := [] }, c)
    | .renameAppLabel old new legacy modelNames =>
      match p.getApp old with
      | none => .error .missingSig
      | some oldApp => do
        let newApp : AppSig := ⟨new, legacy.getD new, some "evolutions", none, []⟩
        let p1 := p.addApp newApp
        -- `simulation.get_model_sig` looks the models up through the *current* app label
        let models ← match modelNames with
          | none => pure oldApp.models
          | some names => names.mapM (fun n => do
              let (_, m) ← getModelSig c p1 n
              pure m)
        -- the old app object may be the one just replaced when old == new
        let oldApp1 := if old == new then newApp else oldApp
        let oldApp2 := models.foldl (fun a m => a.removeModel m.name) oldApp1
        let newApp2 := models.foldl (fun a m => a.addModel m)
          (if old == new then oldApp2 else newApp)
        let p2 := if old == new then p1.putApp newApp2 else (p1.putApp oldApp2).putApp newApp2
        let p3 := if old != new && oldApp2.models.isEmpty then p2.removeApp oldApp2.id else p2
        let p4 ← rewriteLabelRefs fl.renameAppLabelFixed p3 old new (models.map (·.name))
        pure (p4, { c with appLabel := new })
    | .sqlMutation _ canSim => if canSim then pure (p, c) else .error .cannotSimulate
    | _ => .error .metaUnknown

/-- simulate a whole list, one mutation at a time (`run_simulation` in a loop) -/
def simulateAll (e : Env) (fl : Flags) (c : Ctx) (ms : List Mutation) (p : ProjectSig) :
    Except SimErr (ProjectSig × Ctx) :=
  match ms with
  | [] => .ok (p, c)
  | m :: rest => do
    let (p', c') ← simulate e fl c m p
    simulateAll e fl c' rest p'

end DEvo.Mut
