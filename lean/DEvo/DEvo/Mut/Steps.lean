import DEvo.Mut.Basic

/-! Lemmas about running several mutations in a row: the list splits anywhere, and the
simulation context (the app label in force) only ever changes at a `RenameAppLabel`. -/

namespace DEvo.Mut
open DEvo.Sig

/-- the mutation leaves the app label in force alone: anything but a `RenameAppLabel`, or a
`RenameAppLabel` to the label the simulation already runs under (the app's configured label:
the evolution was written when the app got that label) -/
def keepsLabel (c : Ctx) : Mutation → Bool
  | .renameAppLabel _ new _ _ => new == c.appLabel
  | _ => true

theorem simulate_ctx (e : Env) (fl : Flags) (c c' : Ctx) (mu : Mutation) (p p' : ProjectSig)
    (hm : keepsLabel c mu = true) (h : simulate e fl c mu p = .ok (p', c')) : c' = c := by
  unfold simulate at h
  split at h
  · simp only [bind, Except.bind, pure, Except.pure] at h
    split at h
    · cases h
    · split at h
      · cases h
      · simp only [Except.ok.injEq, Prod.mk.injEq] at h; exact h.2.symm
  · cases mu <;> simp only [keepsLabel] at hm <;> simp only [bind, Except.bind, pure, Except.pure] at h
    case addField => cases h
    case changeField => cases h
    case deleteField => cases h
    case renameField => cases h
    case changeMeta => cases h
    case renameModel =>
      split at h
      · cases h
      · simp only [Except.ok.injEq, Prod.mk.injEq] at h; exact h.2.symm
    case deleteModel =>
      split at h
      · cases h
      · simp only [Except.ok.injEq, Prod.mk.injEq] at h; exact h.2.symm
    case deleteApplication =>
      split at h
      · simp only [Except.ok.injEq, Prod.mk.injEq] at h; exact h.2.symm
      · split at h
        · cases h
        · simp only [Except.ok.injEq, Prod.mk.injEq] at h; exact h.2.symm
    case renameAppLabel old new legacy mn heq =>
      have hn : new = c.appLabel := by simpa using hm
      have hc : ({ c with appLabel := new } : Ctx) = c := by rw [hn]
      rw [hc] at h
      split at h
      · cases h
      · split at h
        · split at h
          · cases h
          · simp only [Except.ok.injEq, Prod.mk.injEq] at h; exact h.2.symm
        · split at h
          · cases h
          · split at h
            · cases h
            · simp only [Except.ok.injEq, Prod.mk.injEq] at h; exact h.2.symm
    case sqlMutation =>
      split at h
      · simp only [Except.ok.injEq, Prod.mk.injEq] at h; exact h.2.symm
      · cases h

theorem simulateAll_append (e : Env) (fl : Flags) (c : Ctx) (a b : List Mutation) (p : ProjectSig) :
    simulateAll e fl c (a ++ b) p =
      (simulateAll e fl c a p >>= fun r => simulateAll e fl r.2 b r.1) := by
  induction a generalizing c p with
  | nil => simp [simulateAll, bind, Except.bind]
  | cons m rest ih =>
    simp only [List.cons_append, simulateAll, bind, Except.bind]
    cases h : simulate e fl c m p with
    | error err => rfl
    | ok r => simp only [ih, bind, Except.bind]

theorem simulateAll_ctx (e : Env) (fl : Flags) (c c' : Ctx) (ms : List Mutation) (p p' : ProjectSig)
    (hm : ∀ m ∈ ms, keepsLabel c m = true) (h : simulateAll e fl c ms p = .ok (p', c')) : c' = c := by
  induction ms generalizing c p with
  | nil => simp only [simulateAll, Except.ok.injEq, Prod.mk.injEq] at h; exact h.2.symm
  | cons m rest ih =>
    simp only [simulateAll, bind, Except.bind] at h
    cases hs : simulate e fl c m p with
    | error err => rw [hs] at h; cases h
    | ok r =>
      rw [hs] at h
      have h1 := simulate_ctx e fl c r.2 m p r.1 (hm m (by simp)) (by rw [hs])
      simp only [h1] at h
      exact ih c r.1 (fun m' hm' => hm m' (by simp [hm'])) h


theorem mem_setFieldL_self (fs : List FieldSig) (f : FieldSig) : f ∈ setFieldL fs f := by
  induction fs with
  | nil => simp [setFieldL]
  | cons g r ih =>
    unfold setFieldL
    split
    · simp
    · simp [ih]

theorem mem_setFieldL_other {fs : List FieldSig} {f x : FieldSig} (h : x ∈ fs) (hn : x.name ≠ f.name) :
    x ∈ setFieldL fs f := by
  induction fs with
  | nil => cases h
  | cons g r ih =>
    unfold setFieldL
    rcases List.mem_cons.mp h with hx | hx
    · subst hx
      have : (x.name == f.name) = false := by simpa using hn
      simp [this]
    · split
      · simp [hx]
      · simp [ih hx]


end DEvo.Mut
