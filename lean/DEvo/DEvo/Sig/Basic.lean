/-! Signature model (django_evolution/signature.py).

Attribute values are carried as *canonical JSON text* (`Val := String`): the properties only
ever compare them for equality or test them for truthiness/`None`, and the harness produces the
canonical text (`json.dumps(v, sort_keys=True)`) on the Python side.  Python `dict`/`OrderedDict`s
are insertion-ordered association lists with Python's update semantics (`dSet` keeps the
position of an existing key). -/

namespace DEvo.Sig

abbrev Val := String

instance {ε α} [DecidableEq ε] [DecidableEq α] : DecidableEq (Except ε α) := fun a b =>
  match a, b with
  | .ok x, .ok y => if h : x = y then isTrue (by rw [h]) else isFalse (by intro e; injection e with e; exact h e)
  | .error x, .error y => if h : x = y then isTrue (by rw [h]) else isFalse (by intro e; injection e with e; exact h e)
  | .ok _, .error _ => isFalse (by intro e; cases e)
  | .error _, .ok _ => isFalse (by intro e; cases e)

def vNull : Val := "null"
def vTrue : Val := "true"
def vFalse : Val := "false"

/-- Python truthiness of a JSON-encoded value -/
def truthy (v : Val) : Bool :=
  !(v == "null" || v == "false" || v == "0" || v == "\"\"" || v == "[]" || v == "{}")

/-! ### insertion-ordered dictionaries -/

def dGet {β} (d : List (String × β)) (k : String) : Option β :=
  match d with
  | [] => none
  | (k', v) :: r => if k' == k then some v else dGet r k

def dSet {β} (d : List (String × β)) (k : String) (v : β) : List (String × β) :=
  match d with
  | [] => [(k, v)]
  | (k', v') :: r => if k' == k then (k, v) :: r else (k', v') :: dSet r k v

def dDel {β} (d : List (String × β)) (k : String) : List (String × β) :=
  d.filter (fun p => !(p.1 == k))

def dHas {β} (d : List (String × β)) (k : String) : Bool := (dGet d k).isSome

/-- `d.update(src)` -/
def dUpdate {β} (d src : List (String × β)) : List (String × β) :=
  src.foldl (fun acc p => dSet acc p.1 p.2) d

structure FieldSig where
  name : String
  ftype : String
  attrs : List (String × Val)
  related : Option String
  deriving DecidableEq, Repr, Inhabited

structure ModelSig where
  name : String
  table : String
  pkColumn : Val
  fields : List FieldSig
  uniqueTogether : List (List String)
  utApplied : Bool
  indexTogether : List (List String)
  indexes : List Val
  constraints : List Val
  comment : Val
  tablespace : Val
  deriving DecidableEq, Repr, Inhabited

structure AppSig where
  id : String
  legacy : String
  upgradeMethod : Option String
  appliedMigrations : Option (List String)
  models : List ModelSig
  deriving DecidableEq, Repr, Inhabited

structure ProjectSig where
  apps : List AppSig
  deriving DecidableEq, Repr, Inhabited

/-! ### OrderedDict-keyed-by-name operations on fields / models / apps -/

def ModelSig.getField (m : ModelSig) (n : String) : Option FieldSig := m.fields.find? (fun f => f.name == n)

/-- `_field_sigs[name] = sig` (keeps position when the key exists) -/
def setFieldL (fs : List FieldSig) (f : FieldSig) : List FieldSig :=
  match fs with
  | [] => [f]
  | g :: r => if g.name == f.name then f :: r else g :: setFieldL r f

def ModelSig.addField (m : ModelSig) (f : FieldSig) : ModelSig := { m with fields := setFieldL m.fields f }
def ModelSig.removeField (m : ModelSig) (n : String) : ModelSig :=
  { m with fields := m.fields.filter (fun f => !(f.name == n)) }

def AppSig.getModel (a : AppSig) (n : String) : Option ModelSig := a.models.find? (fun m => m.name == n)

def setModelL (ms : List ModelSig) (m : ModelSig) : List ModelSig :=
  match ms with
  | [] => [m]
  | g :: r => if g.name == m.name then m :: r else g :: setModelL r m

def AppSig.addModel (a : AppSig) (m : ModelSig) : AppSig := { a with models := setModelL a.models m }
def AppSig.removeModel (a : AppSig) (n : String) : AppSig :=
  { a with models := a.models.filter (fun m => !(m.name == n)) }

/-- `ProjectSignature.get_app_sig`: by id, else the first app whose legacy label matches -/
def ProjectSig.getApp (p : ProjectSig) (id : String) : Option AppSig :=
  match p.apps.find? (fun a => a.id == id) with
  | some a => some a
  | none => p.apps.find? (fun a => a.legacy == id)

def setAppL (as : List AppSig) (a : AppSig) : List AppSig :=
  match as with
  | [] => [a]
  | g :: r => if g.id == a.id then a :: r else g :: setAppL r a

def ProjectSig.addApp (p : ProjectSig) (a : AppSig) : ProjectSig := { apps := setAppL p.apps a }
def ProjectSig.removeApp (p : ProjectSig) (id : String) : ProjectSig :=
  { apps := p.apps.filter (fun a => !(a.id == id)) }

/-- in-place replacement of an app object that is already in the project (Python mutates the
object; identity is the `app_id` key) -/
def ProjectSig.putApp (p : ProjectSig) (a : AppSig) : ProjectSig :=
  { apps := p.apps.map (fun b => if b.id == a.id then a else b) }

def AppSig.putModel (a : AppSig) (m : ModelSig) : AppSig :=
  { a with models := a.models.map (fun b => if b.name == m.name then m else b) }

end DEvo.Sig
