import DEvo.Mut.Basic

/-! `diff()` at the four signature levels, `__eq__` (raw dictionaries / sets), and
`Diff.evolution()` (the hinted mutations) — django_evolution/signature.py, diff.py. -/

namespace DEvo.Sig
open DEvo.Mut

/-- insert into a sorted duplicate-free list of strings (Python: `sorted(set(...))`) -/
def insertSorted (s : String) : List String → List String
  | [] => [s]
  | x :: r => if s < x then s :: x :: r else if s == x then x :: r else x :: insertSorted s r

def sortDedup (l : List String) : List String := l.foldr insertSorted []

/-- insert into a sorted list, keeping duplicates (Python: `sorted(list)`) -/
def insertSortedDup (s : String) : List String → List String
  | [] => [s]
  | x :: r => if s < x || s == x then s :: x :: r else x :: insertSortedDup s r

/-- attribute keys (of either side) whose effective values differ -/
def changedKeys (e : Env) (old new : FieldSig) : List String :=
  ((old.attrs.map (·.1)) ++ (new.attrs.map (·.1))).filter (fun a => e.attrValue new a != e.attrValue old a)

/-- the pseudo-attributes appended after the set-derived list -/
def extraKeys (old new : FieldSig) : List String :=
  (if old.ftype != new.ftype then ["field_type"] else []) ++
  (if old.related != new.related then ["related_model"] else [])

/-- `FieldSignature.diff(old)` — `new.diff(old)`.  `changed_attrs` comes from a set (no
duplicates); `field_type` / `related_model` are appended to the list afterwards, so
`related_model` occurs twice when it is also an attribute key; the result is `sorted`. -/
def diffField (e : Env) (old new : FieldSig) : List String :=
  (extraKeys old new).foldr insertSortedDup (sortDedup (changedKeys e old new))

structure ModelDiff where
  added : List String
  changed : List (String × List String)
  deleted : List String
  metaChanged : List String
  deriving DecidableEq, Repr, Inhabited

def ModelDiff.isEmpty (d : ModelDiff) : Bool :=
  d.added.isEmpty && d.changed.isEmpty && d.deleted.isEmpty && d.metaChanged.isEmpty

/-- `has_unique_together_changed` -/
def utChanged (old new : ModelSig) : Bool :=
  old.uniqueTogether != new.uniqueTogether ||
    ((!old.uniqueTogether.isEmpty || !new.uniqueTogether.isEmpty) && old.utApplied != new.utApplied)

def changedFieldsOf (e : Env) (old new : ModelSig) : List (String × List String) :=
  old.fields.filterMap (fun f =>
    match new.getField f.name with
    | some g => if (diffField e f g).isEmpty then none else some (f.name, diffField e f g)
    | none => none)

def deletedFieldsOf (old new : ModelSig) : List String :=
  (old.fields.filter (fun f => (new.getField f.name).isNone)).map (·.name)

def metaChangedOf (old new : ModelSig) : List String :=
  (if utChanged old new then ["unique_together"] else []) ++
  (if new.indexTogether != old.indexTogether then ["index_together"] else []) ++
  (if new.indexes != old.indexes then ["indexes"] else []) ++
  (if new.constraints != old.constraints then ["constraints"] else []) ++
  (if new.comment != old.comment then ["db_table_comment"] else [])

def diffModel (e : Env) (old new : ModelSig) : ModelDiff :=
  ⟨deletedFieldsOf new old, changedFieldsOf e old new, deletedFieldsOf old new, metaChangedOf old new⟩

structure AppDiff where
  changed : List (String × ModelDiff)
  deleted : List String
  metaChanged : List String
  deriving DecidableEq, Repr, Inhabited

def AppDiff.isEmpty (d : AppDiff) : Bool := d.changed.isEmpty && d.deleted.isEmpty && d.metaChanged.isEmpty

def changedModelsOf (e : Env) (old new : AppSig) : List (String × ModelDiff) :=
  old.models.filterMap (fun m =>
    match new.getModel m.name with
    | some n => if (diffModel e m n).isEmpty then none else some (m.name, diffModel e m n)
    | none => none)

def deletedModelsOf (old new : AppSig) : List String :=
  (old.models.filter (fun m => (new.getModel m.name).isNone)).map (·.name)

def appMetaChangedOf (old new : AppSig) : List String :=
  (if old.id != new.id then ["app_id"] else []) ++
  (if old.legacy != new.legacy then ["legacy_app_label"] else []) ++
  (if old.upgradeMethod != new.upgradeMethod && old.upgradeMethod.isSome then ["upgrade_method"] else [])

/-- `AppSignature.diff(old)` for signatures that were not loaded from a version-1 store -/
def diffApp (e : Env) (old new : AppSig) : AppDiff :=
  if new.upgradeMethod == some "migrations" then ⟨[], [], appMetaChangedOf old new⟩
  else ⟨changedModelsOf e old new, deletedModelsOf old new, appMetaChangedOf old new⟩

structure ProjDiff where
  changed : List (String × AppDiff)
  deleted : List (String × List String)
  deriving DecidableEq, Repr, Inhabited

def changedAppsOf (e : Env) (old new : ProjectSig) : List (String × AppDiff) :=
  old.apps.filterMap (fun a =>
    match new.getApp a.id with
    | some b => if (diffApp e a b).isEmpty then none else some (b.id, diffApp e a b)
    | none => none)

def deletedAppsOf (old new : ProjectSig) : List (String × List String) :=
  (old.apps.filter (fun a => (new.getApp a.id).isNone)).map (fun a => (a.id, a.models.map (·.name)))

/-- `ProjectSignature.diff(old)` / `Diff(old, new)` -/
def diffProject (e : Env) (old new : ProjectSig) : ProjDiff :=
  ⟨changedAppsOf e old new, deletedAppsOf old new⟩

/-- `Diff.is_empty(ignore_apps)` -/
def ProjDiff.isEmpty (d : ProjDiff) (ignoreApps : Bool := true) : Bool :=
  if ignoreApps then d.changed.isEmpty else d.changed.isEmpty && d.deleted.isEmpty

/-! ### `__eq__`: raw dictionaries, sets -/

/-- Python `dict.__eq__` on insertion-ordered association lists with unique keys -/
def dictEq (a b : List (String × Val)) : Bool :=
  a.length == b.length && a.all (fun p => dGet b p.1 == some p.2)

def eqField (a b : FieldSig) : Bool :=
  a.name == b.name && a.ftype == b.ftype && dictEq a.attrs b.attrs && a.related == b.related

def setEq (a b : List Val) : Bool := a.all (fun x => b.contains x) && b.all (fun x => a.contains x)
def setEqL (a b : List (List String)) : Bool := a.all (fun x => b.contains x) && b.all (fun x => a.contains x)

def eqModel (a b : ModelSig) : Bool :=
  a.table == b.table && a.comment == b.comment && a.tablespace == b.tablespace &&
  setEq a.constraints b.constraints && setEq a.indexes b.indexes && setEqL a.indexTogether b.indexTogether &&
  a.name == b.name && a.pkColumn == b.pkColumn &&
  (a.fields.length == b.fields.length &&
    a.fields.all (fun f => match b.getField f.name with | some g => eqField f g | none => false)) &&
  !utChanged b a

/-! ### `Diff.evolution()` -/

/-- the initial value the hint carries for a non-null column: the field's default when it has
one, otherwise the `NullFieldInitialCallback` placeholder (both are opaque here) -/
def hintInitial : Val := "\"<<USER VALUE REQUIRED>>\""

def hintModel (e : Env) (new : ModelSig) (name : String) (d : ModelDiff) : List Mutation :=
  let adds := d.added.filterMap (fun fn =>
    (new.getField fn).map (fun g =>
      let needInit := !isM2M g.ftype && !truthy (e.attrValue g "null")
      let attrs := match g.related with
        | some r => g.attrs ++ [("related_model", r)]
        | none => g.attrs
      Mutation.addField name fn g.ftype (if needInit then some hintInitial else none) attrs))
  let dels := d.deleted.map (fun fn => Mutation.deleteField name fn)
  let chgs := d.changed.filterMap (fun (fn, attrsChanged) =>
    (new.getField fn).map (fun g =>
      let typeChanged := attrsChanged.contains "field_type"
      let relVal : Val := match g.related with | some r => r | none => vNull
      let needInit := attrsChanged.contains "null" && !truthy (e.attrValue g "null") && !isM2M g.ftype
      -- `changed_attrs` is an OrderedDict: `related_model` keeps the (sorted) position it got
      -- from `field_change` unless the type changed, in which case it is appended
      let attrs : List (String × Val) :=
        if typeChanged then
          (if attrsChanged.contains "related_model" then dSet g.attrs "related_model" relVal else g.attrs)
        else attrsChanged.map (fun a => (a, if a == "related_model" then relVal else e.attrValue g a))
      Mutation.changeField name fn (if typeChanged then some g.ftype else none)
        (if needInit then some hintInitial else none) attrs))
  let metas :=
    (if d.metaChanged.contains "constraints" then [Mutation.changeMeta name "constraints" (.sigs new.constraints)] else []) ++
    (if d.metaChanged.contains "db_table_comment" then [Mutation.changeMeta name "db_table_comment" (.raw new.comment)] else []) ++
    (if d.metaChanged.contains "indexes" then [Mutation.changeMeta name "indexes" (.sigs new.indexes)] else []) ++
    (if d.metaChanged.contains "index_together" then [Mutation.changeMeta name "index_together" (.together new.indexTogether)] else []) ++
    (if d.metaChanged.contains "unique_together" then [Mutation.changeMeta name "unique_together" (.together new.uniqueTogether)] else [])
  adds ++ dels ++ chgs ++ metas

def hintApp (e : Env) (new : AppSig) (d : AppDiff) : List Mutation :=
  let ms := d.changed.flatMap (fun (mn, md) =>
    match new.getModel mn with
    | some m => hintModel e m mn md
    | none => [])
  ms ++ d.deleted.map (fun mn => Mutation.deleteModel mn)

/-- hinted mutations per app label (`Diff.evolution()`), label renames excluded -/
def hintProject (e : Env) (new : ProjectSig) (d : ProjDiff) : List (String × List Mutation) :=
  d.changed.filterMap (fun (label, ad) =>
    match new.getApp label with
    | some a => let ms := hintApp e a ad; if ms.isEmpty then none else some (label, ms)
    | none => none)

end DEvo.Sig
