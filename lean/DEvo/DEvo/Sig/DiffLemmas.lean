import DEvo.Sig.Diff

/-! Lemmas about insertion-ordered dictionaries and `diffField` used by the C05 theorems. -/

namespace DEvo.Sig
open DEvo.Mut

theorem dGet_dSet {β} (d : List (String × β)) (k' k : String) (v : β) :
    dGet (dSet d k' v) k = if k' == k then some v else dGet d k := by
  induction d with
  | nil => simp [dSet, dGet]
  | cons p r ih =>
    obtain ⟨pk, pv⟩ := p
    by_cases h1 : pk = k'
    · subst h1
      simp only [dSet, beq_self_eq_true, if_true, dGet]
      split <;> rfl
    · have h1' : (pk == k') = false := by simpa using h1
      simp only [dSet, h1', Bool.false_eq_true, if_false, dGet]
      by_cases h2 : pk = k
      · subst h2
        have : (k' == pk) = false := by simpa using fun h => h1 h.symm
        simp [this]
      · have h2' : (pk == k) = false := by simpa using h2
        simp only [h2', Bool.false_eq_true, if_false]
        exact ih

/-- the last binding of `k` in `src`, if any -/
def lastBinding {β} (src : List (String × β)) (k : String) : Option β :=
  match src with
  | [] => none
  | p :: r => match lastBinding r k with
    | some v => some v
    | none => if p.1 == k then some p.2 else none

theorem dGet_dUpdate {β} (src : List (String × β)) : ∀ (d : List (String × β)) (k : String),
    dGet (dUpdate d src) k = match lastBinding src k with | some v => some v | none => dGet d k := by
  induction src with
  | nil => intro d k; simp [dUpdate, lastBinding]
  | cons p r ih =>
    intro d k
    have : dUpdate d (p :: r) = dUpdate (dSet d p.1 p.2) r := by simp [dUpdate]
    rw [this, ih]
    simp only [lastBinding]
    cases h : lastBinding r k with
    | some v => rfl
    | none => simp only [dGet_dSet]; split <;> rfl

theorem lastBinding_map_fun {β} (keys : List String) (f : String → β) (k : String) :
    lastBinding (keys.map (fun a => (a, f a))) k = if k ∈ keys then some (f k) else none := by
  induction keys with
  | nil => simp [lastBinding]
  | cons a r ih =>
    simp only [List.map, lastBinding, ih]
    by_cases hr : k ∈ r
    · simp [hr]
    · simp only [hr, if_false]
      by_cases ha : a = k
      · subst ha; simp
      · have : (a == k) = false := by simpa using ha
        have hka : ¬ k = a := fun h => ha h.symm
        simp [this, hr, hka]

theorem mem_insertSorted {s x : String} {l : List String} :
    x ∈ insertSorted s l ↔ x = s ∨ x ∈ l := by
  induction l with
  | nil => simp [insertSorted]
  | cons y r ih =>
    simp only [insertSorted]
    split
    · simp
    · split
      · rename_i h; have : s = y := by simpa using h
        subst this; simp
      · simp [ih]; constructor
        · rintro (h | h | h)
          · exact Or.inr (Or.inl h)
          · exact Or.inl h
          · exact Or.inr (Or.inr h)
        · rintro (h | h | h)
          · exact Or.inr (Or.inl h)
          · exact Or.inl h
          · exact Or.inr (Or.inr h)

theorem mem_sortDedup {x : String} {l : List String} : x ∈ sortDedup l ↔ x ∈ l := by
  induction l with
  | nil => simp [sortDedup]
  | cons y r ih =>
    have : sortDedup (y :: r) = insertSorted y (sortDedup r) := rfl
    rw [this, mem_insertSorted, ih]; simp

theorem sortDedup_eq_nil {l : List String} : sortDedup l = [] ↔ l = [] := by
  constructor
  · intro h
    cases l with
    | nil => rfl
    | cons y r =>
      have : y ∈ sortDedup (y :: r) := mem_sortDedup.mpr List.mem_cons_self
      rw [h] at this; cases this
  · intro h; subst h; rfl

theorem mem_insertSortedDup {s x : String} {l : List String} :
    x ∈ insertSortedDup s l ↔ x = s ∨ x ∈ l := by
  induction l with
  | nil => simp [insertSortedDup]
  | cons y r ih =>
    simp only [insertSortedDup]
    split
    · simp
    · simp only [List.mem_cons, ih]
      constructor
      · rintro (h | h | h)
        · exact Or.inr (Or.inl h)
        · exact Or.inl h
        · exact Or.inr (Or.inr h)
      · rintro (h | h | h)
        · exact Or.inr (Or.inl h)
        · exact Or.inl h
        · exact Or.inr (Or.inr h)

theorem mem_foldr_insertSortedDup {x : String} {l base : List String} :
    x ∈ l.foldr insertSortedDup base ↔ x ∈ l ∨ x ∈ base := by
  induction l with
  | nil => simp
  | cons y r ih => simp only [List.foldr, mem_insertSortedDup, ih, List.mem_cons]; constructor
                   · rintro (h | h | h)
                     · exact Or.inl (Or.inl h)
                     · exact Or.inl (Or.inr h)
                     · exact Or.inr h
                   · rintro ((h | h) | h)
                     · exact Or.inl h
                     · exact Or.inr (Or.inl h)
                     · exact Or.inr (Or.inr h)

theorem mem_diffField {e : Env} {old new : FieldSig} {x : String} :
    x ∈ diffField e old new ↔ x ∈ extraKeys old new ∨ x ∈ changedKeys e old new := by
  unfold diffField
  rw [mem_foldr_insertSortedDup, mem_sortDedup]

theorem diffField_eq_nil {e : Env} {old new : FieldSig} :
    diffField e old new = [] ↔ extraKeys old new = [] ∧ changedKeys e old new = [] := by
  constructor
  · intro h
    constructor
    · cases hx : extraKeys old new with
      | nil => rfl
      | cons y r =>
        have : y ∈ diffField e old new := mem_diffField.mpr (Or.inl (by rw [hx]; exact List.mem_cons_self))
        rw [h] at this; cases this
    · cases hx : changedKeys e old new with
      | nil => rfl
      | cons y r =>
        have : y ∈ diffField e old new := mem_diffField.mpr (Or.inr (by rw [hx]; exact List.mem_cons_self))
        rw [h] at this; cases this
  · rintro ⟨h1, h2⟩
    unfold diffField; rw [h1, h2]; rfl

/-- keys of `dSet` -/
theorem keys_dSet {β} (d : List (String × β)) (k : String) (v : β) (x : String)
    (h : x ∈ (dSet d k v).map (·.1)) : x = k ∨ x ∈ d.map (·.1) := by
  induction d with
  | nil => simp [dSet] at h; exact Or.inl h
  | cons p r ih =>
    simp only [dSet] at h
    split at h
    · rename_i hk
      simp only [List.map, List.mem_cons] at h
      rcases h with h | h
      · exact Or.inl h
      · exact Or.inr (List.mem_cons_of_mem _ h)
    · simp only [List.map, List.mem_cons] at h
      rcases h with h | h
      · exact Or.inr (by simp [h])
      · rcases ih h with h' | h'
        · exact Or.inl h'
        · exact Or.inr (List.mem_cons_of_mem _ h')

theorem keys_dUpdate {β} (src : List (String × β)) : ∀ (d : List (String × β)) (x : String),
    x ∈ (dUpdate d src).map (·.1) → x ∈ d.map (·.1) ∨ x ∈ src.map (·.1) := by
  induction src with
  | nil => intro d x h; exact Or.inl (by simpa [dUpdate] using h)
  | cons p r ih =>
    intro d x h
    have e : dUpdate d (p :: r) = dUpdate (dSet d p.1 p.2) r := by simp [dUpdate]
    rw [e] at h
    rcases ih _ x h with h1 | h1
    · rcases keys_dSet d p.1 p.2 x h1 with h2 | h2
      · exact Or.inr (by simp [h2])
      · exact Or.inl h2
    · exact Or.inr (List.mem_cons_of_mem _ h1)

end DEvo.Sig
