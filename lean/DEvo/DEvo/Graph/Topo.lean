import DEvo.Graph.Basic

namespace DEvo.Graph

inductive Reach (g : G) : Nat → Nat → Prop
  | refl (x : Nat) : Reach g x x
  | step {x d y : Nat} : d ∈ g.deps x → Reach g d y → Reach g x y

def Ranked (g : G) (rank : Nat → Nat) : Prop := ∀ x d, d ∈ g.deps x → rank d < rank x

theorem reach_rank {g : G} {rank} (hr : Ranked g rank) {x y} (h : Reach g x y) : rank y ≤ rank x := by
  induction h with
  | refl => exact Nat.le_refl _
  | step hd _ ih => have := hr _ _ hd; omega

theorem reach_trans {g : G} {x y z} (h1 : Reach g x y) (h2 : Reach g y z) : Reach g x z := by
  induction h1 with
  | refl => exact h2
  | step hd _ ih => exact Reach.step hd (ih h2)

/-- every element's dependencies occur strictly earlier -/
def DepOrd (g : G) (res : List Nat) : Prop :=
  ∀ pre x post, res = pre ++ x :: post → ∀ d ∈ g.deps x, d ∈ pre

theorem ord_append {g : G} {res : List Nat} {x : Nat} (h : DepOrd g res)
    (hd : ∀ d ∈ g.deps x, d ∈ res) : DepOrd g (res ++ [x]) := by
  intro pre y post heq d hdy
  rcases List.eq_nil_or_concat post with hp | ⟨post', z, hp⟩
  · subst hp
    have : pre ++ [y] = res ++ [x] := by simpa using heq.symm
    have h2 := List.append_inj' this rfl
    obtain ⟨h3, h4⟩ := h2
    have : y = x := by simpa using h4
    subst this; subst h3; exact hd d hdy
  · subst hp
    have : res ++ [x] = (pre ++ y :: post') ++ [z] := by simpa [List.append_assoc] using heq
    have h2 := List.append_inj' this rfl
    exact h pre y post' h2.1 d hdy

theorem run_nil (g : G) (vis proc res) : run g ⟨[], vis, proc, res⟩ = ⟨[], vis, proc, res⟩ := by
  unfold run; simp

theorem run_visited (g : G) (x rest vis proc res) (h : x ∈ vis ∨ ¬ x < g.n) :
    run g ⟨x :: rest, vis, proc, res⟩ = run g ⟨rest, vis, proc, res⟩ := by
  conv => lhs; unfold run
  simp only [dif_pos h]

theorem run_finalize (g : G) (x rest vis proc res) (h : ¬ (x ∈ vis ∨ ¬ x < g.n)) (hp : x ∈ proc) :
    run g ⟨x :: rest, vis, proc, res⟩ =
      run g ⟨rest, x :: vis, proc, if x ∈ res then res else res ++ [x]⟩ := by
  conv => lhs; unfold run
  simp only [dif_neg h, dif_pos hp]

theorem run_expand (g : G) (x rest vis proc res) (h : ¬ (x ∈ vis ∨ ¬ x < g.n)) (hp : x ∉ proc) :
    run g ⟨x :: rest, vis, proc, res⟩ =
      run g ⟨g.deps x ++ x :: rest, vis, x :: proc, res⟩ := by
  conv => lhs; unfold run
  simp only [dif_neg h, dif_neg hp]

structure Mono (g : G) (R : Nat → Prop) (vis proc res vis' proc' res' : List Nat) : Prop where
  visSub : ∀ y ∈ vis, y ∈ vis'
  procSub : ∀ y ∈ proc, y ∈ proc'
  visNew : ∀ y ∈ vis', y ∈ vis ∨ R y
  anc : ∀ y ∈ proc', y ∉ vis' → y ∈ proc ∧ y ∉ vis
  visRes : ∀ y ∈ vis', y ∈ res'
  ord : DepOrd g res'
  resSub : ∀ y ∈ res, y ∈ res'

def Pre (g : G) (x : Nat) (vis proc res : List Nat) : Prop :=
  (∀ y ∈ proc, y ∉ vis → ¬ Reach g x y) ∧ (∀ y ∈ vis, y ∈ res) ∧ DepOrd g res

def Single (g : G) (x : Nat) : Prop :=
  ∀ rest vis proc res, Pre g x vis proc res →
    ∃ vis' proc' res',
      run g ⟨x :: rest, vis, proc, res⟩ = run g ⟨rest, vis', proc', res'⟩ ∧
      (x < g.n → x ∈ vis') ∧ Mono g (Reach g x) vis proc res vis' proc' res'

theorem biglist (g : G) : ∀ (ds : List Nat), (∀ d ∈ ds, Single g d) →
    ∀ rest vis proc res,
      (∀ d ∈ ds, ∀ y ∈ proc, y ∉ vis → ¬ Reach g d y) → (∀ y ∈ vis, y ∈ res) → DepOrd g res →
      ∃ vis' proc' res',
        run g ⟨ds ++ rest, vis, proc, res⟩ = run g ⟨rest, vis', proc', res'⟩ ∧
        (∀ d ∈ ds, d < g.n → d ∈ vis') ∧
        Mono g (fun y => ∃ d ∈ ds, Reach g d y) vis proc res vis' proc' res' := by
  intro ds
  induction ds with
  | nil =>
    intro _ rest vis proc res _ hvr ho
    exact ⟨vis, proc, res, rfl, by simp, ⟨fun _ h => h, fun _ h => h, fun _ h => Or.inl h,
      fun _ h1 h2 => ⟨h1, h2⟩, hvr, ho, fun _ h => h⟩⟩
  | cons d ds ih =>
    intro hs rest vis proc res hanc hvr ho
    have hd := hs d (List.mem_cons_self)
    obtain ⟨v1, p1, r1, e1, hin1, m1⟩ := hd (ds ++ rest) vis proc res
      ⟨hanc d (List.mem_cons_self), hvr, ho⟩
    have hanc' : ∀ d' ∈ ds, ∀ y ∈ p1, y ∉ v1 → ¬ Reach g d' y := by
      intro d' hd' y hy hny
      have := m1.anc y hy hny
      exact hanc d' (List.mem_cons_of_mem _ hd') y this.1 this.2
    obtain ⟨v2, p2, r2, e2, hin2, m2⟩ :=
      ih (fun d' hd' => hs d' (List.mem_cons_of_mem _ hd')) rest v1 p1 r1 hanc' m1.visRes m1.ord
    refine ⟨v2, p2, r2, ?_, ?_, ?_⟩
    · simp only [List.cons_append]; rw [e1, e2]
    · intro d' hd' hlt
      rcases List.mem_cons.mp hd' with h | h
      · subst h; exact m2.visSub _ (hin1 hlt)
      · exact hin2 d' h hlt
    · refine ⟨fun y h => m2.visSub y (m1.visSub y h), fun y h => m2.procSub y (m1.procSub y h), ?_, ?_,
        m2.visRes, m2.ord, fun y h => m2.resSub y (m1.resSub y h)⟩
      · intro y hy
        rcases m2.visNew y hy with h | ⟨d', hd', hr⟩
        · rcases m1.visNew y h with h' | h'
          · exact Or.inl h'
          · exact Or.inr ⟨d, List.mem_cons_self, h'⟩
        · exact Or.inr ⟨d', List.mem_cons_of_mem _ hd', hr⟩
      · intro y hy hny
        have h2 := m2.anc y hy hny
        exact m1.anc y h2.1 h2.2

theorem deps_lt (g : G) {x d : Nat} (h : d ∈ g.deps x) : d < g.n := by
  unfold G.deps at h
  simpa using (List.mem_filter.mp h).2

theorem single (g : G) (rank : Nat → Nat) (hr : Ranked g rank) :
    ∀ r x, rank x ≤ r → Single g x := by
  intro r
  induction r with
  | zero =>
    intro x hx
    -- rank x = 0 ⇒ no dependencies; reuse the successor argument with an empty IH
    intro rest vis proc res hpre
    by_cases hv : x ∈ vis ∨ ¬ x < g.n
    · refine ⟨vis, proc, res, run_visited g x rest vis proc res hv, ?_, ?_⟩
      · intro hlt; rcases hv with h | h
        · exact h
        · exact absurd hlt h
      · exact ⟨fun _ h => h, fun _ h => h, fun _ h => Or.inl h, fun _ h1 h2 => ⟨h1, h2⟩,
          hpre.2.1, hpre.2.2, fun _ h => h⟩
    · have hxv : x ∉ vis := fun h => hv (Or.inl h)
      have hxp : x ∉ proc := fun h => hpre.1 x h hxv (Reach.refl x)
      have hnil : g.deps x = [] := by
        cases hd : g.deps x with
        | nil => rfl
        | cons d ds =>
          have := hr x d (by rw [hd]; exact List.mem_cons_self)
          omega
      refine ⟨x :: vis, x :: proc, if x ∈ res then res else res ++ [x], ?_, ?_, ?_⟩
      · rw [run_expand g x rest vis proc res hv hxp, hnil]
        simp only [List.nil_append]
        rw [run_finalize g x rest vis (x :: proc) res hv List.mem_cons_self]
      · intro _; exact List.mem_cons_self
      · refine ⟨fun y h => List.mem_cons_of_mem _ h, fun y h => List.mem_cons_of_mem _ h, ?_, ?_, ?_, ?_, ?_⟩
        · intro y hy; rcases List.mem_cons.mp hy with h | h
          · subst h; exact Or.inr (Reach.refl _)
          · exact Or.inl h
        · intro y hy hny
          rcases List.mem_cons.mp hy with h | h
          · subst h; exact absurd List.mem_cons_self hny
          · exact ⟨h, fun h' => hny (List.mem_cons_of_mem _ h')⟩
        · intro y hy
          by_cases hxr : x ∈ res
          · simp only [hxr, if_true]
            rcases List.mem_cons.mp hy with h | h
            · subst h; exact hxr
            · exact hpre.2.1 y h
          · simp only [hxr, if_false]
            rcases List.mem_cons.mp hy with h | h
            · subst h; simp
            · exact List.mem_append_left _ (hpre.2.1 y h)
        · by_cases hxr : x ∈ res
          · simp only [hxr, if_true]; exact hpre.2.2
          · simp only [hxr, if_false]
            exact ord_append hpre.2.2 (by intro d hd; rw [hnil] at hd; cases hd)
        · intro y hy
          by_cases hxr : x ∈ res
          · simp only [hxr, if_true]; exact hy
          · simp only [hxr, if_false]; exact List.mem_append_left _ hy
  | succ r ih =>
    intro x hx rest vis proc res hpre
    by_cases hv : x ∈ vis ∨ ¬ x < g.n
    · refine ⟨vis, proc, res, run_visited g x rest vis proc res hv, ?_, ?_⟩
      · intro hlt; rcases hv with h | h
        · exact h
        · exact absurd hlt h
      · exact ⟨fun _ h => h, fun _ h => h, fun _ h => Or.inl h, fun _ h1 h2 => ⟨h1, h2⟩,
          hpre.2.1, hpre.2.2, fun _ h => h⟩
    · have hxv : x ∉ vis := fun h => hv (Or.inl h)
      have hxp : x ∉ proc := fun h => hpre.1 x h hxv (Reach.refl x)
      have hsing : ∀ d ∈ g.deps x, Single g d := by
        intro d hd; apply ih; have := hr x d hd; omega
      have hanc : ∀ d ∈ g.deps x, ∀ y ∈ x :: proc, y ∉ vis → ¬ Reach g d y := by
        intro d hd y hy hny hreach
        rcases List.mem_cons.mp hy with h | h
        · subst h
          have h1 := reach_rank hr hreach
          have h2 := hr y d hd
          omega
        · exact hpre.1 y h hny (Reach.step hd hreach)
      obtain ⟨v1, p1, r1, e1, hin1, m1⟩ :=
        biglist g (g.deps x) hsing (x :: rest) vis (x :: proc) res hanc hpre.2.1 hpre.2.2
      -- x is still an un-visited, processed node
      have hxp1 : x ∈ p1 := m1.procSub x List.mem_cons_self
      have hxv1 : x ∉ v1 := by
        intro h
        rcases m1.visNew x h with h' | ⟨d, hd, hreach⟩
        · exact hxv h'
        · have h1 := reach_rank hr hreach
          have h2 := hr x d hd
          omega
      have hv1 : ¬ (x ∈ v1 ∨ ¬ x < g.n) := by
        intro h; rcases h with h | h
        · exact hxv1 h
        · exact hv (Or.inr h)
      have hdeps_res : ∀ d ∈ g.deps x, d ∈ r1 := by
        intro d hd; exact m1.visRes d (hin1 d hd (deps_lt g hd))
      refine ⟨x :: v1, p1, if x ∈ r1 then r1 else r1 ++ [x], ?_, ?_, ?_⟩
      · rw [run_expand g x rest vis proc res hv hxp, e1, run_finalize g x rest v1 p1 r1 hv1 hxp1]
      · intro _; exact List.mem_cons_self
      · refine ⟨fun y h => List.mem_cons_of_mem _ (m1.visSub y h),
          fun y h => m1.procSub y (List.mem_cons_of_mem _ h), ?_, ?_, ?_, ?_, ?_⟩
        · intro y hy; rcases List.mem_cons.mp hy with h | h
          · subst h; exact Or.inr (Reach.refl _)
          · rcases m1.visNew y h with h' | ⟨d, hd, hreach⟩
            · exact Or.inl h'
            · exact Or.inr (Reach.step hd hreach)
        · intro y hy hny
          have hny1 : y ∉ v1 := fun h' => hny (List.mem_cons_of_mem _ h')
          have hyx : y ≠ x := fun h' => hny (h' ▸ List.mem_cons_self)
          have := m1.anc y hy hny1
          rcases List.mem_cons.mp this.1 with h | h
          · exact absurd h hyx
          · exact ⟨h, this.2⟩
        · intro y hy
          by_cases hxr : x ∈ r1
          · simp only [hxr, if_true]
            rcases List.mem_cons.mp hy with h | h
            · subst h; exact hxr
            · exact m1.visRes y h
          · simp only [hxr, if_false]
            rcases List.mem_cons.mp hy with h | h
            · subst h; simp
            · exact List.mem_append_left _ (m1.visRes y h)
        · by_cases hxr : x ∈ r1
          · simp only [hxr, if_true]; exact m1.ord
          · simp only [hxr, if_false]; exact ord_append m1.ord hdeps_res
        · intro y hy
          by_cases hxr : x ∈ r1
          · simp only [hxr, if_true]; exact m1.resSub y hy
          · simp only [hxr, if_false]; exact List.mem_append_left _ (m1.resSub y hy)

end DEvo.Graph
