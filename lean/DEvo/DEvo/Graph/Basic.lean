/-! Faithful model of `DependencyGraph.get_ordered` (django_evolution/utils/graph.py):
the inner `while stack:` loop as a stack machine.  Nodes are identified with their
`insert_index`; `adj[x]` lists the dependencies of `x` in ascending insert index
(the Python code pushes them sorted by insert index, reversed, so the smallest is
popped first).  `run` is accepted by well-founded recursion for *every* graph,
cyclic or not, so the real loop terminates on every input. -/

namespace DEvo.Graph


structure G where
  n : Nat
  adj : List (List Nat)          -- adj[x] = dependencies of x, ascending insert index

def G.deps (g : G) (x : Nat) : List Nat := (g.adj.getD x []).filter (· < g.n)

structure St where
  stack : List Nat               -- head = top of the Python list's end
  visited : List Nat
  processed : List Nat
  result : List Nat

def step (g : G) (s : St) : St :=
  match s.stack with
  | [] => s
  | x :: rest =>
    if x ∈ s.visited ∨ ¬ x < g.n then { s with stack := rest }
    else if x ∈ s.processed then
      { s with stack := rest, visited := x :: s.visited,
               result := if x ∈ s.result then s.result else s.result ++ [x] }
    else { s with stack := g.deps x ++ x :: rest, processed := x :: s.processed }

def unproc (g : G) (s : St) : Nat := ((List.range g.n).filter (fun y => !s.processed.contains y)).length

theorem filter_len_le (p q : Nat → Bool) (l : List Nat) (h : ∀ y, q y = true → p y = true) :
    (l.filter q).length ≤ (l.filter p).length := by
  induction l with
  | nil => simp
  | cons a l ih =>
    simp only [List.filter_cons]
    cases hq : q a <;> cases hp : p a
    · simpa using ih
    · simp; omega
    · exact absurd (h a hq) (by simp [hp])
    · simp; omega

theorem filter_len_lt (p q : Nat → Bool) (l : List Nat) (h : ∀ y, q y = true → p y = true)
    (x : Nat) (hx : x ∈ l) (hpx : p x = true) (hqx : q x = false) :
    (l.filter q).length < (l.filter p).length := by
  induction l with
  | nil => simp at hx
  | cons a l ih =>
    simp only [List.filter_cons]
    by_cases hax : a = x
    · subst hax
      have := filter_len_le p q l h
      simp [hpx, hqx]; omega
    · have hxl : x ∈ l := by
        cases hx with
        | head => exact absurd rfl hax
        | tail _ h => exact h
      have := ih hxl
      cases hq : q a <;> cases hp : p a
      · simpa using this
      · simp; omega
      · exact absurd (h a hq) (by simp [hp])
      · simp; omega

theorem filter_cons_lt (l p : List Nat) (x : Nat) (hx : x ∈ l) (hp : p.contains x = false) :
    (l.filter (fun y => !(x :: p).contains y)).length < (l.filter (fun y => !p.contains y)).length := by
  apply filter_len_lt (fun y => !p.contains y) (fun y => !(x :: p).contains y) l _ x hx
  · simpa using hp
  · simp
  · intro y; simp [List.contains_cons]

def run (g : G) (s : St) : St :=
  match hs : s.stack with
  | [] => s
  | x :: rest =>
    if hv : x ∈ s.visited ∨ ¬ x < g.n then run g { s with stack := rest }
    else if hp : x ∈ s.processed then
      run g { s with stack := rest, visited := x :: s.visited,
                     result := if x ∈ s.result then s.result else s.result ++ [x] }
    else run g { s with stack := g.deps x ++ x :: rest, processed := x :: s.processed }
termination_by (unproc g s, s.stack.length)
decreasing_by
  · apply Prod.Lex.right'; · simp [unproc]
    simp [hs]
  · apply Prod.Lex.right'; · simp [unproc]
    simp [hs]
  · apply Prod.Lex.left
    have hx : x < g.n := by
      rcases Nat.lt_or_ge x g.n with h | h
      · exact h
      · exact absurd (Or.inr (Nat.not_lt.mpr h)) hv
    exact filter_cons_lt _ _ _ (List.mem_range.mpr hx) (by simpa using hp)

end DEvo.Graph
