import DEvo.Graph.Topo

/-! Outer loop of `DependencyGraph.get_ordered` (one stack machine run per leaf node,
fresh `visited`/`processed`, shared `result`) and the facts the C09 theorems need. -/

namespace DEvo.Graph

/-- nodes nothing depends on (`get_leaf_nodes`), ascending insert index -/
def G.leaves (g : G) : List Nat :=
  (List.range g.n).filter (fun x => (List.range g.n).all (fun y => !(g.deps y).contains x))

def runLeaf (g : G) (res : List Nat) (l : Nat) : List Nat := (run g ⟨[l], [], [], res⟩).result

def getOrderedFrom (g : G) (res : List Nat) (ls : List Nat) : List Nat := ls.foldl (runLeaf g) res

/-- `DependencyGraph.get_ordered()` -/
def getOrdered (g : G) : List Nat := getOrderedFrom g [] g.leaves

/-! ### fuel version, for evaluating concrete graphs inside the kernel -/

def runF (g : G) : Nat → St → St
  | 0, s => s
  | k + 1, s =>
    match s.stack with
    | [] => s
    | x :: rest =>
      if x ∈ s.visited ∨ ¬ x < g.n then runF g k { s with stack := rest }
      else if x ∈ s.processed then
        runF g k { s with stack := rest, visited := x :: s.visited,
                          result := if x ∈ s.result then s.result else s.result ++ [x] }
      else runF g k { s with stack := g.deps x ++ x :: rest, processed := x :: s.processed }

theorem run_eq_runF (g : G) : ∀ k s, (runF g k s).stack = [] → run g s = runF g k s := by
  intro k
  induction k with
  | zero =>
    intro s h
    obtain ⟨st, v, p, r⟩ := s
    simp only [runF] at h
    subst h
    simp [runF, run_nil]
  | succ k ih =>
    intro s h
    obtain ⟨st, v, p, r⟩ := s
    cases st with
    | nil => simp [runF, run_nil]
    | cons x rest =>
      simp only [runF] at h ⊢
      by_cases hv : x ∈ v ∨ ¬ x < g.n
      · simp only [if_pos hv] at h ⊢
        rw [run_visited g x rest v p r hv]; exact ih _ h
      · simp only [if_neg hv] at h ⊢
        by_cases hp : x ∈ p
        · simp only [if_pos hp] at h ⊢
          rw [run_finalize g x rest v p r hv hp]; exact ih _ h
        · simp only [if_neg hp] at h ⊢
          rw [run_expand g x rest v p r hv hp]; exact ih _ h

/-! ### invariants of the machine that hold for every graph -/

theorem run_stack_nil (g : G) (s : St) : (run g s).stack = [] := by
  fun_induction run g s with
  | case1 s hs => exact hs
  | case2 s x rest hs hv ih => exact ih
  | case3 s x rest hs hv hp ih => exact ih
  | case4 s x rest hs hv hp ih => exact ih

theorem run_result_nodup (g : G) (s : St) (h : s.result.Nodup) : (run g s).result.Nodup := by
  fun_induction run g s with
  | case1 s hs => exact h
  | case2 s x rest hs hv ih => exact ih h
  | case3 s x rest hs hv hp ih =>
    apply ih
    show (if x ∈ s.result then s.result else s.result ++ [x]).Nodup
    by_cases hx : x ∈ s.result
    · simp only [hx, if_true]; exact h
    · simp only [hx, if_false]
      rw [List.nodup_append]
      refine ⟨h, by simp, ?_⟩
      intro a ha b hb
      have : b = x := by simpa using hb
      subst this
      intro hab; subst hab; exact hx ha
  | case4 s x rest hs hv hp ih => exact ih h

theorem run_result_lt (g : G) (s : St) (h : ∀ y ∈ s.result, y < g.n) :
    ∀ y ∈ (run g s).result, y < g.n := by
  fun_induction run g s with
  | case1 s hs => exact h
  | case2 s x rest hs hv ih => exact ih h
  | case3 s x rest hs hv hp ih =>
    apply ih
    intro y hy
    have hxlt : x < g.n := by
      rcases Nat.lt_or_ge x g.n with h' | h'
      · exact h'
      · exact absurd (Or.inr (Nat.not_lt.mpr h')) hv
    by_cases hx : x ∈ s.result
    · simp only [hx, if_true] at hy; exact h y hy
    · simp only [hx, if_false] at hy
      rcases List.mem_append.mp hy with h1 | h1
      · exact h y h1
      · have : y = x := by simpa using h1
        subst this; exact hxlt
  | case4 s x rest hs hv hp ih => exact ih h

theorem getOrderedFrom_nodup (g : G) (ls res : List Nat) (h : res.Nodup) :
    (getOrderedFrom g res ls).Nodup := by
  induction ls generalizing res with
  | nil => exact h
  | cons l ls ih =>
    simp only [getOrderedFrom, List.foldl_cons]
    exact ih _ (run_result_nodup g _ h)

theorem getOrderedFrom_lt (g : G) (ls res : List Nat) (h : ∀ y ∈ res, y < g.n) :
    ∀ y ∈ getOrderedFrom g res ls, y < g.n := by
  induction ls generalizing res with
  | nil => exact h
  | cons l ls ih =>
    simp only [getOrderedFrom, List.foldl_cons]
    exact ih _ (run_result_lt g _ h)

/-! ### acyclic graphs -/

theorem runLeaf_spec (g : G) (rank : Nat → Nat) (hr : Ranked g rank) (res : List Nat) (l : Nat)
    (ho : DepOrd g res) :
    DepOrd g (runLeaf g res l) ∧ (∀ y ∈ res, y ∈ runLeaf g res l) ∧ (l < g.n → l ∈ runLeaf g res l) := by
  have hs := single g rank hr (rank l) l (Nat.le_refl _) [] [] [] res
    ⟨(by intro y hy; cases hy), (by intro y hy; cases hy), ho⟩
  obtain ⟨v, p, r, e, hin, m⟩ := hs
  have : runLeaf g res l = r := by
    unfold runLeaf; rw [e, run_nil]
  rw [this]
  exact ⟨m.ord, m.resSub, fun hlt => m.visRes l (hin hlt)⟩

theorem getOrderedFrom_spec (g : G) (rank : Nat → Nat) (hr : Ranked g rank) :
    ∀ (ls res : List Nat), DepOrd g res →
      DepOrd g (getOrderedFrom g res ls) ∧ (∀ y ∈ res, y ∈ getOrderedFrom g res ls) ∧
      (∀ l ∈ ls, l < g.n → l ∈ getOrderedFrom g res ls) := by
  intro ls
  induction ls with
  | nil => intro res ho; exact ⟨ho, fun _ h => h, by intro l hl; cases hl⟩
  | cons l ls ih =>
    intro res ho
    simp only [getOrderedFrom, List.foldl_cons]
    obtain ⟨o1, s1, i1⟩ := runLeaf_spec g rank hr res l ho
    obtain ⟨o2, s2, i2⟩ := ih (runLeaf g res l) o1
    refine ⟨o2, fun y hy => s2 y (s1 y hy), ?_⟩
    intro l' hl' hlt
    rcases List.mem_cons.mp hl' with h | h
    · subst h; exact s2 _ (i1 hlt)
    · exact i2 l' h hlt

theorem depOrd_closed {g : G} {res : List Nat} (ho : DepOrd g res) {x y : Nat} (hr : Reach g x y)
    (hx : x ∈ res) : y ∈ res := by
  induction hr with
  | refl => exact hx
  | step hd _ ih =>
    apply ih
    obtain ⟨pre, post, e⟩ := List.append_of_mem hx
    exact e ▸ List.mem_append_left _ (ho pre _ post e _ hd)

theorem not_leaf_required (g : G) (x : Nat) (hx : x < g.n) (hl : x ∉ g.leaves) :
    ∃ y, y < g.n ∧ x ∈ g.deps y := by
  unfold G.leaves at hl
  rw [List.mem_filter] at hl
  have h1 : ((List.range g.n).all (fun y => !(g.deps y).contains x)) = false := by
    cases hc : (List.range g.n).all (fun y => !(g.deps y).contains x) with
    | false => rfl
    | true => exact absurd ⟨List.mem_range.mpr hx, hc⟩ hl
  rw [List.all_eq_false] at h1
  obtain ⟨y, hy, hc⟩ := h1
  refine ⟨y, List.mem_range.mp hy, ?_⟩
  simpa using hc

theorem leaf_reaches (g : G) (rank : Nat → Nat) (hr : Ranked g rank) (B : Nat)
    (hB : ∀ x, x < g.n → rank x ≤ B) :
    ∀ k x, x < g.n → B - rank x ≤ k → ∃ l ∈ g.leaves, Reach g l x := by
  intro k
  induction k with
  | zero =>
    intro x hx hk
    by_cases hl : x ∈ g.leaves
    · exact ⟨x, hl, Reach.refl x⟩
    · obtain ⟨y, hy, hd⟩ := not_leaf_required g x hx hl
      have := hr y x hd
      have := hB y hy
      omega
  | succ k ih =>
    intro x hx hk
    by_cases hl : x ∈ g.leaves
    · exact ⟨x, hl, Reach.refl x⟩
    · obtain ⟨y, hy, hd⟩ := not_leaf_required g x hx hl
      have h1 := hr y x hd
      have h2 := hB y hy
      obtain ⟨l, hl', hreach⟩ := ih y hy (by omega)
      exact ⟨l, hl', reach_trans hreach (Reach.step hd (Reach.refl x))⟩

def rankBound (rank : Nat → Nat) : Nat → Nat
  | 0 => 0
  | n + 1 => max (rank n) (rankBound rank n)

theorem rankBound_spec (rank : Nat → Nat) : ∀ n x, x < n → rank x ≤ rankBound rank n := by
  intro n
  induction n with
  | zero => intro x hx; omega
  | succ n ih =>
    intro x hx
    simp only [rankBound]
    by_cases h : x = n
    · subst h; exact Nat.le_max_left _ _
    · have := ih x (by omega); have := Nat.le_max_right (rank n) (rankBound rank n); omega

theorem leaves_lt (g : G) : ∀ l ∈ g.leaves, l < g.n := by
  intro l hl
  unfold G.leaves at hl
  exact List.mem_range.mp (List.mem_filter.mp hl).1

end DEvo.Graph
