/-! Model of `EvolutionGraph.iter_batches` + `EvolveAppTask._build_batches` +
the order in which `EvolveAppTask.execute_tasks` walks a batch
(django_evolution/utils/graph.py, django_evolution/evolve/evolve_app_task.py).

Input: the graph's nodes *in `get_ordered()` order*, each tagged with its type and (for
create-model / evolution nodes) the task (= app) that owns it.  Output: the order in which
the units are actually executed. -/

namespace DEvo.Graph

inductive Kind where
  | anchor | create | evolution | migration
  deriving DecidableEq, Repr, Inhabited

structure Unit' where
  id : Nat            -- position in get_ordered() output (identity of the unit)
  kind : Kind
  task : Nat          -- owning task for create/evolution nodes; ignored otherwise
  deriving DecidableEq, Repr, Inhabited

/-- `UpgradeMethod` of the batch a node ends up in: create-model and evolution nodes both
become `EVOLUTIONS` batches and are merged (`merge_dicts`) when consecutive. -/
def isMig (u : Unit') : Bool := u.kind == Kind.migration

def nonAnchor (us : List Unit') : List Unit' := us.filter (fun u => u.kind != Kind.anchor)

/-- split off the maximal prefix of units with the same upgrade type -/
def spanType (m : Bool) : List Unit' → List Unit' × List Unit'
  | [] => ([], [])
  | u :: us => if isMig u == m then let (a, b) := spanType m us; (u :: a, b) else ([], u :: us)

theorem spanType_append (m : Bool) (us : List Unit') : (spanType m us).1 ++ (spanType m us).2 = us := by
  induction us with
  | nil => rfl
  | cons u us ih =>
    simp only [spanType]
    split
    · simp [ih]
    · simp

theorem spanType_snd_length (m : Bool) (us : List Unit') : (spanType m us).2.length ≤ us.length := by
  induction us with
  | nil => simp [spanType]
  | cons u us ih =>
    simp only [spanType]
    split
    · simp; omega
    · simp

/-- merged batches: maximal runs of non-anchor units of one upgrade type (fuel = length) -/
def batchesF : Nat → List Unit' → List (Bool × List Unit')
  | 0, _ => []
  | _, [] => []
  | k + 1, u :: us =>
    let r := spanType (isMig u) us
    (isMig u, u :: r.1) :: batchesF k r.2

def batchesOf (us : List Unit') : List (Bool × List Unit') := batchesF us.length us

/-- evolutions of one batch regrouped per task, tasks in first-appearance order
(`task_evolutions = OrderedDict(); task_evolutions.setdefault(task, {})…append(label)`) -/
def groupF : Nat → List Unit' → List Unit'
  | 0, _ => []
  | _, [] => []
  | k + 1, u :: us => (u :: us.filter (fun v => v.task == u.task)) ++
      groupF k (us.filter (fun v => !(v.task == u.task)))

def groupByTask (us : List Unit') : List Unit' := groupF us.length us

/-- execution order inside one batch (`execute_tasks`): an EVOLUTIONS batch first creates all
its new models, then runs each task's evolutions; a MIGRATIONS batch follows its plan. -/
def execBatch (b : Bool × List Unit') : List Unit' :=
  if b.1 then b.2
  else b.2.filter (fun u => u.kind == Kind.create) ++
       groupByTask (b.2.filter (fun u => !(u.kind == Kind.create)))

def execOrder (ordered : List Unit') : List Unit' :=
  (batchesOf (nonAnchor ordered)).flatMap execBatch

/-! ### every pending unit is executed exactly once -/

theorem groupF_perm : ∀ (n : Nat) (us : List Unit'), us.length ≤ n → (groupF n us).Perm us := by
  intro n
  induction n with
  | zero =>
    intro us h
    have : us = [] := List.length_eq_zero_iff.mp (by omega)
    subst this; simp [groupF]
  | succ n ih =>
    intro us h
    cases us with
    | nil => simp [groupF]
    | cons u us =>
      simp only [groupF]
      have hl := List.length_filter_le (fun v : Unit' => !(v.task == u.task)) us
      have h2 := ih (us.filter (fun v => !(v.task == u.task))) (by simp at h; omega)
      simp only [List.cons_append]
      apply (List.perm_cons u).mpr
      exact (List.Perm.append (List.Perm.refl _) h2).trans (List.filter_append_perm _ us)

theorem groupByTask_perm (us : List Unit') : (groupByTask us).Perm us :=
  groupF_perm _ us (Nat.le_refl _)

theorem execBatch_perm (b : Bool × List Unit') : (execBatch b).Perm b.2 := by
  unfold execBatch
  split
  · exact List.Perm.refl _
  · exact (List.Perm.append (List.Perm.refl _) (groupByTask_perm _)).trans
      (List.filter_append_perm _ b.2)

theorem batchesF_flat : ∀ (n : Nat) (us : List Unit'), us.length ≤ n →
    (batchesF n us).flatMap (fun b => b.2) = us := by
  intro n
  induction n with
  | zero =>
    intro us h
    have : us = [] := List.length_eq_zero_iff.mp (by omega)
    subst this; simp [batchesF]
  | succ n ih =>
    intro us h
    cases us with
    | nil => simp [batchesF]
    | cons u us =>
      simp only [batchesF]
      have hl := spanType_snd_length (isMig u) us
      have h2 := ih (spanType (isMig u) us).2 (by simp at h; omega)
      simp only [List.flatMap_cons, h2, List.cons_append]
      rw [spanType_append]

theorem batchesOf_flat (us : List Unit') : (batchesOf us).flatMap (fun b => b.2) = us :=
  batchesF_flat _ us (Nat.le_refl _)

theorem flatMap_perm {α β} (f g : α → List β) (l : List α) (h : ∀ a ∈ l, (f a).Perm (g a)) :
    (l.flatMap f).Perm (l.flatMap g) := by
  induction l with
  | nil => simp
  | cons a l ih =>
    simp only [List.flatMap_cons]
    exact List.Perm.append (h a List.mem_cons_self) (ih (fun b hb => h b (List.mem_cons_of_mem _ hb)))

theorem execOrder_perm (ordered : List Unit') : (execOrder ordered).Perm (nonAnchor ordered) := by
  unfold execOrder
  have h1 := flatMap_perm execBatch (fun b => b.2) (batchesOf (nonAnchor ordered))
    (fun b _ => execBatch_perm b)
  rw [batchesOf_flat] at h1
  exact h1

end DEvo.Graph
