import DEvo.Sql.Rebuild

/-! Helper lemmas about the association lists of the rebuild model (`kset`, `kget`, the fold that
positions the initial values).  Property statements live in `DEvo/Props/C02.lean`. -/

namespace DEvo.Sql

theorem kget_nil {β} (k : String) : kget ([] : List (String × β)) k = none := rfl

theorem kget_cons {β} (p : String × β) (d : List (String × β)) (k : String) :
    kget (p :: d) k = if p.1 == k then some p.2 else kget d k := by
  unfold kget
  rw [List.find?_cons]
  by_cases h : (p.1 == k) = true <;> simp [h]

theorem kget_append_single {β} (d : List (String × β)) (k k' : String) (v : β) :
    kget (d ++ [(k, v)]) k' = match kget d k' with
      | some x => some x
      | none => if k == k' then some v else none := by
  induction d with
  | nil => simp [kget_cons, kget_nil]
  | cons p d ih =>
    simp only [List.cons_append, kget_cons]
    by_cases h : (p.1 == k') = true
    · simp [h]
    · simp [h, ih]

theorem kget_map_set {β} (d : List (String × β)) (k k' : String) (v : β) :
    kget (d.map (fun p => if p.1 == k then (k, v) else p)) k' =
      if k == k' then (if (kget d k').isSome then some v else none) else kget d k' := by
  induction d with
  | nil => simp [kget_nil]
  | cons p d ih =>
    simp only [List.map_cons, kget_cons, ih]
    by_cases hk : (k == k') = true
    · have hkk : k = k' := by simpa using hk
      subst hkk
      by_cases hp : (p.1 == k) = true
      · simp [hp]
      · simp [hp]
    · have hne : ¬ k = k' := by simpa using hk
      by_cases hp : (p.1 == k) = true
      · have hpk : p.1 = k := by simpa using hp
        have : (p.1 == k') = false := by
          simp only [beq_eq_false_iff_ne, ne_eq]; rw [hpk]; exact hne
        simp [hp, hk, this]
      · simp [hp, hk]

theorem any_key_iff_kget {β} (d : List (String × β)) (k : String) :
    d.any (fun p => p.1 == k) = (kget d k).isSome := by
  induction d with
  | nil => simp [kget_nil]
  | cons p d ih =>
    simp only [List.any_cons, kget_cons, ih]
    by_cases h : (p.1 == k) = true <;> simp [h]

theorem kget_kset {β} (d : List (String × β)) (k k' : String) (v : β) :
    kget (kset d k v) k' = if k == k' then some v else kget d k' := by
  unfold kset
  rw [any_key_iff_kget]
  by_cases hs : (kget d k).isSome = true
  · simp only [hs, if_true, kget_map_set]
    by_cases hk : (k == k') = true
    · have : k = k' := by simpa using hk
      subst this
      simp [hs]
    · simp [hk]
  · simp only [hs, Bool.false_eq_true, if_false, kget_append_single]
    have hn : kget d k = none := by
      cases h : kget d k with
      | none => rfl
      | some x => simp [h] at hs
    by_cases hk : (k == k') = true
    · have : k = k' := by simpa using hk
      subst this
      simp [hn]
    · simp only [hk, Bool.false_eq_true, if_false]
      cases kget d k' <;> rfl

/-- keys of an association list -/
def keys {β} (d : List (String × β)) : List String := d.map (·.1)

theorem kget_none_of_not_mem {β} (d : List (String × β)) (k : String) (h : k ∉ keys d) : kget d k = none := by
  induction d with
  | nil => rfl
  | cons p d ih =>
    simp only [keys, List.map_cons, List.mem_cons, not_or] at h
    rw [kget_cons]
    have : (p.1 == k) = false := by
      simp only [beq_eq_false_iff_ne, ne_eq]; exact fun e => h.1 e.symm
    simp only [this, Bool.false_eq_true, if_false]
    exact ih h.2

theorem mem_keys_of_kget {β} (d : List (String × β)) (k : String) (v : β) (h : kget d k = some v) : k ∈ keys d := by
  induction d with
  | nil => simp [kget_nil] at h
  | cons p d ih =>
    rw [kget_cons] at h
    by_cases hp : (p.1 == k) = true
    · have : p.1 = k := by simpa using hp
      simp [keys, this]
    · simp only [hp, if_false] at h
      have := ih h
      simp only [keys, List.map_cons, List.mem_cons]
      exact Or.inr this

theorem keys_kset {β} (d : List (String × β)) (k : String) (v : β) :
    keys (kset d k v) = if (kget d k).isSome then keys d else keys d ++ [k] := by
  unfold kset
  rw [any_key_iff_kget]
  by_cases hs : (kget d k).isSome = true
  · simp only [hs, if_true, keys, List.map_map]
    apply List.map_congr_left
    intro p _
    by_cases hp : (p.1 == k) = true
    · have : p.1 = k := by simpa using hp
      simp [hp, this]
    · have hne : ¬ p.1 = k := by simpa using hp
      simp [hne]
  · simp [hs, keys]

theorem nodup_keys_kset {β} (d : List (String × β)) (k : String) (v : β) (h : (keys d).Nodup) :
    (keys (kset d k v)).Nodup := by
  rw [keys_kset]
  by_cases hs : (kget d k).isSome = true
  · simpa [hs] using h
  · simp only [hs, Bool.false_eq_true, if_false]
    have hn : kget d k = none := by
      cases hh : kget d k with
      | none => rfl
      | some x => simp [hh] at hs
    have hk : k ∉ keys d := by
      intro hm
      have : ∃ v, kget d k = some v := by
        clear hs hn h
        induction d with
        | nil => simp [keys] at hm
        | cons p d ih =>
          rw [kget_cons]
          by_cases hp : (p.1 == k) = true
          · exact ⟨p.2, by simp [hp]⟩
          · simp only [hp, if_false]
            simp only [keys, List.map_cons, List.mem_cons] at hm
            rcases hm with e | hm
            · exact absurd (by simpa using e.symm) hp
            · exact ih hm
      obtain ⟨x, hx⟩ := this
      simp [hx] at hn
    exact List.nodup_append.mpr ⟨h, by simp, by
      intro a ha b hb
      simp only [List.mem_singleton] at hb
      subst hb
      exact fun e => hk (e ▸ ha)⟩

theorem nodup_keys_newInitial (items : List Item) : (keys (newInitial items)).Nodup := by
  unfold newInitial
  suffices h : ∀ (acc : List (String × Init)), (keys acc).Nodup →
      (keys (items.foldl (fun acc it =>
        match it with
        | .addColumn c (some i) => kset acc c i
        | .modifyColumn c (some i) => kset acc c i
        | _ => acc) acc)).Nodup from h [] (by simp [keys])
  induction items with
  | nil => intro acc h; simpa using h
  | cons it items ih =>
    intro acc h
    simp only [List.foldl_cons]
    apply ih
    cases it with
    | addColumn c i => cases i with
      | none => exact h
      | some i => exact nodup_keys_kset _ _ _ h
    | modifyColumn c i => cases i with
      | none => exact h
      | some i => exact nodup_keys_kset _ _ _ h
    | deleteColumn c => exact h
    | other => exact h

theorem effective_id (cfg : CopyCfg) (h : cfg.flagPerItem = true) (seen : Bool) (l : List (String × Init)) :
    effective cfg seen l = l := by
  induction l generalizing seen with
  | nil => rfl
  | cons p l ih =>
    obtain ⟨c, i⟩ := p
    simp [effective, h, ih]

/-- what the loop over the initial values leaves in `field_values` for column `c` -/
theorem kget_foldl_fvStep (cfg : CopyCfg) (l : List (String × Init)) (hl : (keys l).Nodup)
    (fv0 : List (String × Src)) (c : String) :
    kget (l.foldl (fvStep cfg) fv0) c =
      match kget l c with
      | none => kget fv0 c
      | some i => some (srcFor cfg (kget fv0 c).isSome c i) := by
  induction l generalizing fv0 with
  | nil => simp [kget_nil]
  | cons p l ih =>
    obtain ⟨k, i⟩ := p
    simp only [keys, List.map_cons, List.nodup_cons] at hl
    simp only [List.foldl_cons]
    rw [ih hl.2, kget_cons]
    by_cases hk : (k == c) = true
    · have e : k = c := by simpa using hk
      subst e
      have hn : kget l k = none := kget_none_of_not_mem l k hl.1
      simp [hn, fvStep, kget_kset]
    · simp only [hk, Bool.false_eq_true, if_false]
      have hfv : kget (fvStep cfg fv0 (k, i)) c = kget fv0 c := by
        simp [fvStep, kget_kset, hk]
      cases kget l c with
      | none => simpa using hfv
      | some i' => simp [hfv]

theorem kget_baseValues (oldCols : List String) (items : List Item) (c : String) :
    kget (baseValues oldCols items) c =
      if (survivors oldCols items).contains c then some (Src.col c) else none := by
  unfold baseValues
  induction survivors oldCols items with
  | nil => simp [kget_nil]
  | cons x xs ih =>
    simp only [List.map_cons, kget_cons, ih, List.contains_cons]
    by_cases h : (x == c) = true
    · have e : x = c := by simpa using h
      subst e
      simp
    · have h' : (c == x) = false := by
        simp only [beq_eq_false_iff_ne, ne_eq]
        intro e; exact h (by simp [e])
      simp [h, h']

theorem rowGet_intendedRow (ni : List (String × Init)) (fv : List (String × Src)) (r : Row) (c : String) :
    rowGet (intendedRow ni fv r) c = match kget fv c with
      | none => none
      | some s => intended ni c s r := by
  unfold rowGet intendedRow
  induction fv with
  | nil => simp [kget_nil]
  | cons p fv ih =>
    simp only [List.map_cons, kget_cons]
    by_cases h : (p.1 == c) = true
    · have e : p.1 = c := by simpa using h
      simp [h, e]
    · simp only [h, Bool.false_eq_true, if_false]
      exact ih

/-- every placeholder that the loop positions belongs to a column whose declared initial is a bound
parameter -/
theorem placeholders_of_foldl (cfg : CopyCfg) (l : List (String × Init)) (fv0 : List (String × Src))
    (h0 : ∀ cs ∈ fv0, isPlaceholder cs.2 = true → ∃ v, (cs.1, Init.param v) ∈ l) :
    ∀ cs ∈ l.foldl (fvStep cfg) fv0, isPlaceholder cs.2 = true → ∃ v, (cs.1, Init.param v) ∈ l := by
  suffices h : ∀ (done todo : List (String × Init)) (fv : List (String × Src)), l = done ++ todo →
      (∀ cs ∈ fv, isPlaceholder cs.2 = true → ∃ v, (cs.1, Init.param v) ∈ l) →
      ∀ cs ∈ todo.foldl (fvStep cfg) fv, isPlaceholder cs.2 = true → ∃ v, (cs.1, Init.param v) ∈ l from
    h [] l fv0 rfl h0
  intro done todo
  induction todo generalizing done with
  | nil => intro fv _ h; simpa using h
  | cons p todo ih =>
    intro fv hl hfv
    simp only [List.foldl_cons]
    apply ih (done ++ [p]) (fvStep cfg fv p) (by simp [hl])
    intro cs hcs hp
    obtain ⟨k, i⟩ := p
    have hmem : (k, i) ∈ l := by simp [hl]
    simp only [fvStep, kset] at hcs
    split at hcs
    · simp only [List.mem_map] at hcs
      obtain ⟨q, hq, he⟩ := hcs
      by_cases hqk : (q.1 == k) = true
      · simp only [hqk, if_true] at he
        subst he
        cases i with
        | param v => exact ⟨v, hmem⟩
        | embed s =>
          simp only [srcFor] at hp
          split at hp <;> simp [isPlaceholder] at hp
      · simp only [hqk, Bool.false_eq_true, if_false] at he
        subst he
        exact hfv q hq hp
    · simp only [List.mem_append, List.mem_singleton] at hcs
      rcases hcs with hq | he
      · exact hfv cs hq hp
      · subst he
        cases i with
        | param v => exact ⟨v, hmem⟩
        | embed s =>
          simp only [srcFor] at hp
          split at hp <;> simp [isPlaceholder] at hp

theorem kget_of_mem_nodup {β} (d : List (String × β)) (h : (keys d).Nodup) (k : String) (v : β)
    (hm : (k, v) ∈ d) : kget d k = some v := by
  induction d with
  | nil => simp at hm
  | cons p d ih =>
    simp only [keys, List.map_cons, List.nodup_cons] at h
    rw [kget_cons]
    simp only [List.mem_cons] at hm
    rcases hm with e | hm
    · subst e; simp
    · have : p.1 ≠ k := by
        intro e
        apply h.1
        rw [e]
        exact List.mem_map.mpr ⟨(k, v), hm, rfl⟩
      have hb : (p.1 == k) = false := by simpa using this
      simp only [hb, Bool.false_eq_true, if_false]
      exact ih h.2 hm

end DEvo.Sql
