import DEvo.Generated.Tables

/-! `BaseEvolutionOperations.generate_table_ops_sql` / `_are_ops_mergeable`
(django_evolution/db/common.py) and the rebuild decision of
`SQLiteAlterTableSQLResult.to_sql` (django_evolution/db/sqlite3.py): which queued operations
of one `ModelMutator` share one `AlterTableSQLResult`, and how many table rebuilds result. -/

namespace DEvo.Sql

/-- one queued operation (`ModelMutator._ops` entry): its type and the alter-table items that
its lowering produces on SQLite -/
structure Op where
  typ : String
  items : List String
  deriving DecidableEq, Repr, Inhabited

/-- does the lowering of the op force a rebuild (per the extracted `needs_rebuild` table)? -/
def Op.needsRebuild (rebuildItems : List String) (op : Op) : Bool := op.items.any (fun i => rebuildItems.contains i)

/-- `_are_ops_mergeable(prev_op, op)` -/
def mergeableWith (mergeable : List String) (prev op : Op) : Bool :=
  mergeable.contains prev.typ && mergeable.contains op.typ

/-- the groups of ops that end up in one `AlterTableSQLResult` (reverse accumulation: the head
of `acc` is the current group, whose head is the previous op) -/
def groupsAux (mergeable : List String) : List Op → List (List Op) → List (List Op)
  | [], acc => acc
  | op :: rest, [] => groupsAux mergeable rest [[op]]
  | op :: rest, [] :: acc => groupsAux mergeable rest ([op] :: acc)
  | op :: rest, (prev :: g) :: acc =>
    if mergeableWith mergeable prev op then groupsAux mergeable rest ((op :: prev :: g) :: acc)
    else groupsAux mergeable rest ([op] :: (prev :: g) :: acc)

def groups (mergeable : List String) (ops : List Op) : List (List Op) := groupsAux mergeable ops []

/-- number of table rebuilds when the ops of one model mutator are lowered -/
def rebuilds (mergeable rebuildItems : List String) (ops : List Op) : Nat :=
  ((groups mergeable ops).filter (fun g => g.any (Op.needsRebuild rebuildItems))).length

/-- the documented set: column additions, deletions, attribute changes, Meta changes -/
def mergeableOK (mergeable : List String) : Bool :=
  mergeable.contains "add_column" && mergeable.contains "change_column" &&
  mergeable.contains "delete_column" && mergeable.contains "change_meta"

/-! ### lowering of each op to alter-table items on SQLite (hand-written, validated by the
rebuild-count correspondence) -/

/-- `change_column` with the given changed attribute names -/
def changeColumnItems (attrs : List String) : List String :=
  attrs.flatMap (fun a =>
    if a == "null" || a == "max_length" || a == "max_digits" || a == "decimal_places" || a == "unique"
    then ["MODIFY COLUMN"]
    else if a == "db_index" then ["ADD DB INDEX"]     -- or DROP DB INDEX: neither rebuilds
    else [])                                           -- db_column / db_table: plain SQL

def opOf (typ : String) (detail : List String) : Op :=
  match typ with
  | "add_column" => ⟨typ, ["ADD COLUMN"]⟩
  | "delete_column" => ⟨typ, ["DELETE COLUMN"]⟩
  | "change_column_type" => ⟨typ, ["CHANGE COLUMN TYPE"]⟩
  | "change_column" => ⟨typ, changeColumnItems detail⟩
  | "change_meta" => ⟨typ, if detail.contains "constraints" then ["ADD CONSTRAINTS"] else []⟩
  | _ => ⟨typ, []⟩

end DEvo.Sql
