/-! Model of `DatabaseState` (django_evolution/db/state.py): the bookkeeping of tables and their indexes
that the SQL generation consults instead of the database (`find_index` decides whether a `DROP INDEX` /
`CREATE INDEX` is emitted).  Per table two insertion-ordered dictionaries keyed by index name: ordinary
and unique indexes.  Table names are taken as already normalised. -/

namespace DEvo.Sql

structure Ix where
  name : String
  cols : List String
  unique : Bool
  deriving DecidableEq, Repr, Inhabited

structure Tbl where
  plain : List Ix
  uniq : List Ix
  deriving DecidableEq, Repr, Inhabited

abbrev DbState := List (String × Tbl)

inductive StErr where
  | untracked      -- "The table is not being tracked in the database state."
  | exists_        -- "This index already exists."
  | notFound       -- "The index could not be found."
  deriving DecidableEq, Repr, Inhabited

def Tbl.dict (t : Tbl) (unique : Bool) : List Ix := if unique then t.uniq else t.plain
def Tbl.setDict (t : Tbl) (unique : Bool) (d : List Ix) : Tbl :=
  if unique then { t with uniq := d } else { t with plain := d }

def getTbl (s : DbState) (t : String) : Option Tbl := (s.find? (fun kv => kv.1 == t)).map (·.2)

def setTbl : DbState → String → Tbl → DbState
  | [], t, v => [(t, v)]
  | (k, w) :: rest, t, v => if k == t then (k, v) :: rest else (k, w) :: setTbl rest t v

/-- `add_table`: an empty entry (an existing one is replaced, and keeps its place) -/
def addTable (s : DbState) (t : String) : DbState := setTbl s t ⟨[], []⟩

def hasTable (s : DbState) (t : String) : Bool := (getTbl s t).isSome

/-- `get_index` -/
def getIndex (s : DbState) (t name : String) (unique : Bool) : Option Ix :=
  match getTbl s t with
  | none => none
  | some tb => (tb.dict unique).find? (fun ix => ix.name == name)

/-- `iter_indexes`: ordinary ones first, then unique ones, each in insertion order -/
def iterIndexes (s : DbState) (t : String) : List Ix :=
  match getTbl s t with
  | none => []
  | some tb => tb.plain ++ tb.uniq

/-- `find_index`: the first index over exactly these columns with this uniqueness -/
def findIndex (s : DbState) (t : String) (cols : List String) (unique : Bool) : Option Ix :=
  (iterIndexes s t).find? (fun ix => ix.cols == cols && ix.unique == unique)

/-- `add_index` -/
def addIndex (s : DbState) (t name : String) (cols : List String) (unique : Bool) : Except StErr DbState :=
  match getTbl s t with
  | none => .error .untracked
  | some tb =>
    if ((tb.dict unique).find? (fun ix => ix.name == name)).isSome then .error .exists_
    else .ok (setTbl s t (tb.setDict unique (tb.dict unique ++ [⟨name, cols, unique⟩])))

/-- `remove_index` -/
def removeIndex (s : DbState) (t name : String) (unique : Bool) : Except StErr DbState :=
  match getTbl s t with
  | none => .error .untracked
  | some tb =>
    if ((tb.dict unique).find? (fun ix => ix.name == name)).isSome then
      .ok (setTbl s t (tb.setDict unique ((tb.dict unique).filter (fun ix => ix.name != name))))
    else .error .notFound

/-- `clear_indexes` -/
def clearIndexes (s : DbState) (t : String) : DbState :=
  match getTbl s t with
  | none => s
  | some _ => setTbl s t ⟨[], []⟩

theorem getTbl_setTbl_same (s : DbState) (t : String) (v : Tbl) : getTbl (setTbl s t v) t = some v := by
  induction s with
  | nil => simp [setTbl, getTbl]
  | cons kv rest ih =>
    obtain ⟨k, w⟩ := kv
    by_cases h : k == t
    · simp [setTbl, h, getTbl]
    · have h2 : (k == t) = false := by simpa using h
      simp only [setTbl, h2, Bool.false_eq_true, if_false, getTbl, List.find?] at ih ⊢
      exact ih

theorem getTbl_setTbl_other (s : DbState) (t t' : String) (v : Tbl) (hne : t' ≠ t) :
    getTbl (setTbl s t v) t' = getTbl s t' := by
  induction s with
  | nil =>
    have : (t == t') = false := by simpa using (fun h => hne h.symm)
    simp [setTbl, getTbl, List.find?, this]
  | cons kv rest ih =>
    obtain ⟨k, w⟩ := kv
    by_cases h : k == t
    · have hk : k = t := by simpa using h
      have : (k == t') = false := by subst hk; simpa using (fun h => hne h.symm)
      simp [setTbl, h, getTbl, List.find?, this]
    · have h2 : (k == t) = false := by simpa using h
      by_cases h3 : k == t'
      · simp [setTbl, h2, getTbl, List.find?, h3]
      · have h4 : (k == t') = false := by simpa using h3
        simp only [setTbl, h2, Bool.false_eq_true, if_false, getTbl, List.find?, h4] at ih ⊢
        exact ih


theorem find_after_add (s s' : DbState) (t name : String) (cols : List String) (u : Bool)
    (h : addIndex s t name cols u = .ok s') :
    ∃ ix, findIndex s' t cols u = some ix ∧ ix.cols = cols ∧ ix.unique = u := by
  unfold addIndex at h
  cases ht : getTbl s t with
  | none => simp [ht] at h
  | some tb =>
    simp only [ht] at h
    split at h
    · cases h
    · injection h with h
      subst h
      have hmem : (⟨name, cols, u⟩ : Ix) ∈ iterIndexes (setTbl s t (tb.setDict u (tb.dict u ++ [⟨name, cols, u⟩]))) t := by
        simp only [iterIndexes, getTbl_setTbl_same]
        cases u <;> simp [Tbl.setDict, Tbl.dict]
      have hs : (findIndex (setTbl s t (tb.setDict u (tb.dict u ++ [⟨name, cols, u⟩]))) t cols u).isSome := by
        unfold findIndex
        rw [List.find?_isSome]
        exact ⟨_, hmem, by simp⟩
      obtain ⟨ix, hix⟩ := Option.isSome_iff_exists.mp hs
      refine ⟨ix, hix, ?_⟩
      have := List.find?_some hix
      simpa using this

theorem removed_is_gone (s s' : DbState) (t name : String) (u : Bool)
    (h : removeIndex s t name u = .ok s') : getIndex s' t name u = none := by
  unfold removeIndex at h
  cases ht : getTbl s t with
  | none => simp [ht] at h
  | some tb =>
    simp only [ht] at h
    split at h
    · injection h with h
      subst h
      simp only [getIndex, getTbl_setTbl_same]
      cases u <;> simp [Tbl.setDict, Tbl.dict, List.find?_eq_none]
    · cases h

/-- every index sits in the dictionary of its kind (what `add_index` establishes) -/
def Tbl.WF (tb : Tbl) : Prop := (∀ ix ∈ tb.plain, ix.unique = false) ∧ (∀ ix ∈ tb.uniq, ix.unique = true)

def WFState (s : DbState) : Prop := ∀ t tb, getTbl s t = some tb → tb.WF

theorem wf_addIndex (s s' : DbState) (t name : String) (cols : List String) (u : Bool)
    (hw : WFState s) (h : addIndex s t name cols u = .ok s') : WFState s' := by
  unfold addIndex at h
  cases ht : getTbl s t with
  | none => simp [ht] at h
  | some tb =>
    simp only [ht] at h
    split at h
    · cases h
    · injection h with h
      subst h
      intro t' tb' h'
      by_cases e : t' = t
      · subst e
        rw [getTbl_setTbl_same] at h'
        injection h' with h'
        subst h'
        have := hw t' tb ht
        cases u <;> simp [Tbl.setDict, Tbl.dict, Tbl.WF] at this ⊢
        · exact ⟨fun ix hix => by rcases hix with h1 | h1; exact this.1 ix h1; subst h1; rfl, this.2⟩
        · exact ⟨this.1, fun ix hix => by rcases hix with h1 | h1; exact this.2 ix h1; subst h1; rfl⟩
      · rw [getTbl_setTbl_other _ _ _ _ e] at h'
        exact hw t' tb' h'

theorem wf_removeIndex (s s' : DbState) (t name : String) (u : Bool)
    (hw : WFState s) (h : removeIndex s t name u = .ok s') : WFState s' := by
  unfold removeIndex at h
  cases ht : getTbl s t with
  | none => simp [ht] at h
  | some tb =>
    simp only [ht] at h
    split at h
    · injection h with h
      subst h
      intro t' tb' h'
      by_cases e : t' = t
      · subst e
        rw [getTbl_setTbl_same] at h'
        injection h' with h'
        subst h'
        have := hw t' tb ht
        cases u <;> simp [Tbl.setDict, Tbl.dict, Tbl.WF] at this ⊢
        · exact ⟨fun ix hix _ => this.1 ix hix, this.2⟩
        · exact ⟨this.1, fun ix hix _ => this.2 ix hix⟩
      · rw [getTbl_setTbl_other _ _ _ _ e] at h'
        exact hw t' tb' h'
    · cases h

/-- after `remove_index`, an index over these columns is found only if ANOTHER index of that kind covers them -/
theorem remove_then_find (s s' : DbState) (t name : String) (cols : List String) (u : Bool) (tb : Tbl)
    (ht : getTbl s t = some tb) (hw : tb.WF)
    (h : removeIndex s t name u = .ok s')
    (honly : ∀ ix ∈ tb.dict u, ix.cols = cols → ix.name = name) :
    findIndex s' t cols u = none := by
  unfold removeIndex at h
  simp only [ht] at h
  split at h
  · injection h with h
    subst h
    unfold findIndex
    rw [List.find?_eq_none]
    intro ix hix
    simp only [iterIndexes, getTbl_setTbl_same] at hix
    simp only [Bool.and_eq_true, beq_iff_eq, not_and]
    intro hc hu
    cases u <;> simp [Tbl.setDict, Tbl.dict] at hix honly <;> rcases hix with h1 | h1
    · exact h1.2 (honly ix h1.1 hc)
    · have := hw.2 ix h1; simp [hu] at this
    · have := hw.1 ix h1; simp [hu] at this
    · exact h1.2 (honly ix h1.1 hc)
  · cases h

end DEvo.Sql
