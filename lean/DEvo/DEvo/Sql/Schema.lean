import DEvo.Mut.Env

/-! Abstract schema of one model's table: what creating the model from scratch produces
(`fresh`) and what the SQLite rebuild re-creates (`rebuilt`: column definitions from
`build_column_schema`, then `sql_indexes_for_model` on a stand-in `_meta` whose
`index_together` and `indexes` are empty and which has no `unique_together`). -/

namespace DEvo.Sql
open DEvo.Sig DEvo.Mut

structure Col where
  name : String
  ctype : Val
  notnull : Bool
  pk : Bool
  deriving DecidableEq, Repr, Inhabited

structure Index where
  cols : List String
  unique : Bool
  deriving DecidableEq, Repr, Inhabited

structure Table where
  name : String
  cols : List Col
  indexes : List Index
  checks : List String
  deriving DecidableEq, Repr, Inhabited

def isRel (t : String) : Bool := t == "ForeignKey" || t == "OneToOneField"

/-- `field.column` -/
def columnOf (f : FieldSig) : String :=
  match dGet f.attrs "db_column" with
  | some v => if v == vNull then (if isRel f.ftype then f.name ++ "_id" else f.name) else unq v
  | none => if isRel f.ftype then f.name ++ "_id" else f.name

def colOf (e : Env) (f : FieldSig) : Col :=
  ⟨columnOf f, e.dbType f.ftype f.attrs, !truthy (e.attrValue f "null"), truthy (e.attrValue f "primary_key")⟩

def dataFields (m : ModelSig) : List FieldSig := m.fields.filter (fun f => !isM2M f.ftype)

/-- per-field indexes: UNIQUE columns and `db_index` columns (primary keys have their own) -/
def fieldIndexes (e : Env) (fs : List FieldSig) : List Index :=
  fs.filterMap (fun f =>
    if truthy (e.attrValue f "primary_key") then none
    else if truthy (e.attrValue f "unique") then some ⟨[columnOf f], true⟩
    else if truthy (e.attrValue f "db_index") then some ⟨[columnOf f], false⟩
    else none)

def colsOfNames (m : ModelSig) (names : List String) : List String :=
  names.map (fun n => match m.getField n with | some f => columnOf f | none => n)

/-- column CHECKs that Django emits for positive integer fields -/
def fieldChecks (fs : List FieldSig) : List String :=
  fs.filterMap (fun f => if f.ftype == "PositiveIntegerField" then some (columnOf f ++ ">=0") else none)

/-- table-level indexes declared in Meta (`indexes` entries are opaque here: one per entry) -/
def tableLevelIndexes (m : ModelSig) : List Index :=
  m.uniqueTogether.map (fun t => ⟨colsOfNames m t, true⟩) ++
  m.indexTogether.map (fun t => ⟨colsOfNames m t, false⟩)

/-- the table of a freshly created model -/
def fresh (e : Env) (m : ModelSig) : Table :=
  ⟨m.table, (dataFields m).map (colOf e), fieldIndexes e (dataFields m) ++ tableLevelIndexes m,
   fieldChecks (dataFields m)⟩

/-- the table after a SQLite rebuild whose new field list is the model's field list -/
def rebuilt (e : Env) (m : ModelSig) : Table :=
  ⟨m.table, (dataFields m).map (colOf e), fieldIndexes e (dataFields m), []⟩

/-! ### foreign-key targets

`CREATE TABLE` of a fresh model references the related model's primary-key *column*; the rebuild
takes the referenced column from `build_column_schema`, whose expression
`related_model._meta.pk.<attr>` is extracted from the source (`Generated.fkReferenceAttr`). -/

structure Fk where
  col : String
  refTable : String
  refCol : String
  deriving DecidableEq, Repr, Inhabited

def pkField (e : Env) (m : ModelSig) : Option FieldSig :=
  (dataFields m).find? (fun f => truthy (e.attrValue f "primary_key"))

/-- what the expression `pk.<attr>` evaluates to; `none` for an attribute the model does not know -/
def pkAttr (attr : String) (pk : FieldSig) : Option String :=
  if attr == "column" then some (columnOf pk) else if attr == "name" then some pk.name else none

def fksWith (refCol : FieldSig → Option String) (e : Env) (lookup : String → Option ModelSig) (m : ModelSig) :
    List Fk :=
  (dataFields m).filterMap (fun f =>
    if isRel f.ftype then
      match f.related.bind lookup with
      | some tgt => (pkField e tgt).bind (fun pk => (refCol pk).map (fun c => ⟨columnOf f, tgt.table, c⟩))
      | none => none
    else none)

def freshFks := fksWith (fun pk => some (columnOf pk))
def rebuiltFks (attr : String) := fksWith (pkAttr attr)

/-- no table-level Meta, no Meta.indexes/constraints, no CHECK-carrying field -/
def plainModel (m : ModelSig) : Bool :=
  m.uniqueTogether.isEmpty && m.indexTogether.isEmpty && m.indexes.isEmpty && m.constraints.isEmpty &&
  (dataFields m).all (fun f => f.ftype != "PositiveIntegerField")

end DEvo.Sql
