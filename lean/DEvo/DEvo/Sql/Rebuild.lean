/-! The SQLite table rebuild's data copy (django_evolution/db/sqlite3.py,
`SQLiteAlterTableSQLResult.to_sql` steps 1–2): which old column feeds which new column, which
placeholders the `INSERT INTO "TEMP_TABLE" (…) SELECT … FROM table` contains, and in which
order the bound parameters are passed — `field_values` and `field_initials`, built in the same
orders as the code builds them.  Values are strings; `none` is SQL NULL. -/

namespace DEvo.Sql

/-- an initial value after `normalize_initial`: bound as a parameter, or (text returned by a
callable) embedded into the statement -/
inductive Init where
  | param (v : String)
  | embed (sql : String)
  deriving DecidableEq, Repr, Inhabited

/-- alter-table items that matter for the copy (everything else only forces the rebuild) -/
inductive Item where
  | addColumn (col : String) (initial : Option Init)
  | deleteColumn (col : String)
  | modifyColumn (col : String) (initial : Option Init)
  | other
  deriving DecidableEq, Repr, Inhabited

/-- source expression of one column of the `SELECT` -/
inductive Src where
  | col (c : String)              -- "c"
  | coalesceParam (c : String)    -- coalesce("c", %s)
  | param                         -- %s
  | embed (sql : String)          -- literal text
  | coalesceEmbed (c : String) (sql : String)   -- coalesce("c", literal text)
  deriving DecidableEq, Repr, Inhabited

/-- how the copy treats initial values (read from the source / probed on every run):
`aligned`: bound parameters are passed in placeholder order (finding F3 repaired);
`embedCoalesces`: SQL text returned by a callable initial is wrapped in `coalesce` when its column
already exists (today it is not: finding F57);
`flagPerItem`: the embed-or-bind decision is taken anew for every initial value (today it is). -/
structure CopyCfg where
  aligned : Bool
  embedCoalesces : Bool
  flagPerItem : Bool
  deriving DecidableEq, Repr, Inhabited

def Init.value : Init → String
  | .param v => v
  | .embed s => s

def Init.isEmbed : Init → Bool
  | .embed _ => true
  | .param _ => false

def kset {β} (d : List (String × β)) (k : String) (v : β) : List (String × β) :=
  if d.any (fun p => p.1 == k) then d.map (fun p => if p.1 == k then (k, v) else p) else d ++ [(k, v)]

def kget {β} (d : List (String × β)) (k : String) : Option β := (d.find? (fun p => p.1 == k)).map (·.2)

/-- `new_initial`: column → initial, in the order the items first mention the column -/
def newInitial (items : List Item) : List (String × Init) :=
  items.foldl (fun acc it =>
    match it with
    | .addColumn c (some i) => kset acc c i
    | .modifyColumn c (some i) => kset acc c i
    | _ => acc) []

def deletedCols (items : List Item) : List String :=
  items.filterMap (fun it => match it with | .deleteColumn c => some c | _ => none)

structure Plan where
  fieldValues : List (String × Src)
  params : List String
  deriving DecidableEq, Repr, Inhabited

/-- the initial values as the loop over `new_initial` sees them: when the embed flag is not
recomputed per item, it stays set after the first embedded value and later plain values are
embedded as text too -/
def effective (cfg : CopyCfg) : Bool → List (String × Init) → List (String × Init)
  | _, [] => []
  | seen, (c, i) :: rest =>
    let i' : Init := if !cfg.flagPerItem && seen then Init.embed i.value else i
    (c, i') :: effective cfg (seen || i.isEmbed) rest

def survivors (oldCols : List String) (items : List Item) : List String :=
  oldCols.filter (fun c => !(deletedCols items).contains c)

def baseValues (oldCols : List String) (items : List Item) : List (String × Src) :=
  (survivors oldCols items).map (fun c => (c, Src.col c))

/-- the `SELECT` expression an initial value produces for its column -/
def srcFor (cfg : CopyCfg) (existing : Bool) (c : String) : Init → Src
  | .param _ => if existing then Src.coalesceParam c else Src.param
  | .embed sql => if existing && cfg.embedCoalesces then Src.coalesceEmbed c sql else Src.embed sql

def fvStep (cfg : CopyCfg) (fv : List (String × Src)) (ci : String × Init) : List (String × Src) :=
  kset fv ci.1 (srcFor cfg (kget fv ci.1).isSome ci.1 ci.2)

/-- `field_values` after the loop over `new_initial` (placeholders positioned) -/
def fieldValuesOf (cfg : CopyCfg) (oldCols : List String) (items : List Item) : List (String × Src) :=
  (effective cfg false (newInitial items)).foldl (fvStep cfg) (baseValues oldCols items)

def isPlaceholder : Src → Bool
  | .coalesceParam _ | .param => true
  | _ => false

/-- for each placeholder of the `SELECT` list, in order, the declared initial of its column -/
def alignedParams (ni : List (String × Init)) (fv : List (String × Src)) : List String :=
  fv.filterMap (fun (cs : String × Src) =>
    if isPlaceholder cs.2 then
      match kget ni cs.1 with
      | some (.param v) => some v
      | _ => none
    else none)

/-- the bound parameters.  `aligned = false` (today's code): in `new_initial` order.
`aligned = true` (repaired): in the order in which the placeholders occur in `field_values`. -/
def paramsOf (cfg : CopyCfg) (oldCols : List String) (items : List Item) : List String :=
  let ni := effective cfg false (newInitial items)
  if cfg.aligned then alignedParams ni (fieldValuesOf cfg oldCols items)
  else ni.filterMap (fun ci => match ci.2 with | .param v => some v | .embed _ => none)

def plan (cfg : CopyCfg) (oldCols : List String) (items : List Item) : Plan :=
  ⟨fieldValuesOf cfg oldCols items, paramsOf cfg oldCols items⟩

abbrev Row := List (String × Option String)

def rowGet (r : Row) (c : String) : Option String := (kget r c).join

/-- positional binding: walk the `SELECT` list, consuming one parameter per placeholder -/
def evalRow : List (String × Src) → List String → Row → Row
  | [], _, _ => []
  | (c, .col o) :: rest, ps, r => (c, rowGet r o) :: evalRow rest ps r
  | (c, .embed s) :: rest, ps, r => (c, some s) :: evalRow rest ps r
  | (c, .param) :: rest, ps, r => (c, ps.head?) :: evalRow rest ps.tail r
  | (c, .coalesceParam o) :: rest, ps, r =>
    (c, match rowGet r o with | some v => some v | none => ps.head?) :: evalRow rest ps.tail r
  | (c, .coalesceEmbed o s) :: rest, ps, r =>
    (c, match rowGet r o with | some v => some v | none => some s) :: evalRow rest ps r

/-- the whole copy: every row of the old table becomes one row of the new table -/
def copyRows (p : Plan) (rows : List Row) : List Row := rows.map (evalRow p.fieldValues p.params)

/-- what the property demands of one new column, given the *declared* initial of that column -/
def intended (ni : List (String × Init)) (c : String) (src : Src) (r : Row) : Option String :=
  match src with
  | .col o => rowGet r o
  | .embed s => some s
  | .param => match kget ni c with | some (.param v) => some v | _ => none
  | .coalesceParam o => match rowGet r o with
    | some v => some v
    | none => match kget ni c with | some (.param v) => some v | _ => none
  | .coalesceEmbed o s => match rowGet r o with
    | some v => some v
    | none => some s

def intendedRow (ni : List (String × Init)) (fv : List (String × Src)) (r : Row) : Row :=
  fv.map (fun cs => (cs.1, intended ni cs.1 cs.2 r))

/-- **the property, per column of the rebuilt table**, stated from the inputs alone (no reference to how
the statement is put together): a surviving column keeps every non-NULL value and has its NULLs
replaced by the initial value declared for it (if any); a new column holds its declared initial
value in every row. -/
def specValue (oldCols : List String) (items : List Item) (r : Row) (c : String) : Option String :=
  let declared : Option String := (kget (newInitial items) c).map Init.value
  if (survivors oldCols items).contains c then
    match rowGet r c with
    | some v => some v
    | none => declared
  else declared

end DEvo.Sql
