/-! Hand-over of an app to Django migrations (`MoveToDjangoMigrations`,
`EvolveAppTask._build_migrations_info`, `execute_tasks`), for a linear chain of `m` migrations
`0 … m-1`: which are recorded as applied without being executed, which are executed, in which
order.  Django's `migration_plan` for a chain (apply every unapplied ancestor in chain order) is
an assumed primitive, observed by correspondence. -/

namespace DEvo.Run

structure MigState where
  m : Nat                   -- length of the chain
  recorded : List Nat       -- django_migrations rows of the app (may contain duplicates if broken)
  deriving DecidableEq, Repr, Inhabited

/-- `mark_applied` is a prefix of the chain of length `s` -/
def markApplied (s : Nat) : List Nat := List.range s

/-- migrations recorded as applied *without executing them* by this run:
`extra_applied_migrations = task.applied_migrations - applied_migrations` -/
def extraApplied (st : MigState) (s : Nat) : List Nat :=
  (markApplied s).filter (fun i => !st.recorded.contains i)

/-- migrations executed by this run, in execution order: the plan for the leaves minus everything
applied or marked applied -/
def toExecute (st : MigState) (s : Nat) : List Nat :=
  (List.range st.m).filter (fun i => !st.recorded.contains i && !(markApplied s).contains i)

/-- one complete run: record the extra applied ones first, then execute the rest (each executed
migration is recorded by Django's executor) -/
def runMig (st : MigState) (s : Nat) : MigState :=
  { st with recorded := st.recorded ++ extraApplied st s ++ toExecute st s }

end DEvo.Run
