/-! # Loading the mutations of a list of evolution labels (`get_app_mutations`)

For every label the package looks for `<label>.sql`, then `<database>_<label>.sql`, next to the
evolutions package, and falls back to the Python module `<label>` when neither exists. -/

namespace DEvo.Load

/-- what an app ships for one label -/
structure Shipped where
  label : String
  /-- `<label>.sql` -/
  generic : Option String
  /-- `<database>_<label>.sql`, per database alias -/
  perDb : List (String × String)
  /-- `MUTATIONS` of the Python module -/
  py : List String
  deriving DecidableEq, Repr

inductive Loaded where
  | sql (label contents : String)
  | py (tag : String)
  deriving DecidableEq, Repr

def lookup (l : List (String × String)) (k : String) : Option String :=
  match l.find? (fun e => e.1 == k) with
  | some e => some e.2
  | none => none

/-- the SQL file that counts for a database: the generic one first -/
def sqlFor (e : Shipped) (db : String) : Option String :=
  match e.generic with
  | some s => some s
  | none => lookup e.perDb db

/-- one label on its own -/
def loadOne (db : String) (e : Shipped) : List Loaded :=
  match sqlFor e db with
  | some s => [.sql e.label s]
  | none => e.py.map .py

/-- the loop of `get_app_mutations` with its `found` flag: set to False for every label (`resetPerLabel`), or only
once before the loop -/
def loadLoop (resetPerLabel : Bool) (db : String) : Bool → List Shipped → List Loaded
  | _, [] => []
  | found, e :: rest =>
    let found0 := if resetPerLabel then false else found
    match sqlFor e db with
    | some s => .sql e.label s :: loadLoop resetPerLabel db true rest
    | none =>
      if found0 then loadLoop resetPerLabel db found0 rest
      else e.py.map .py ++ loadLoop resetPerLabel db found0 rest

theorem loadLoop_reset (db : String) (found : Bool) (es : List Shipped) :
    loadLoop true db found es = es.flatMap (loadOne db) := by
  induction es generalizing found with
  | nil => rfl
  | cons e rest ih =>
    simp only [loadLoop, List.flatMap_cons, loadOne, if_true]
    cases h : sqlFor e db with
    | some s => simp [ih]
    | none => simp [ih]

/-- the preview (`prepare`) loads for the database being evolved; the execution (`_build_batches`) loads for the
alias it is handed - the same one, or the default when the argument is left out -/
def previewLoad (db : String) (es : List Shipped) : List Loaded := es.flatMap (loadOne db)
def executeLoad (passesDatabase : Bool) (db : String) (es : List Shipped) : List Loaded :=
  es.flatMap (loadOne (if passesDatabase then db else "default"))

end DEvo.Load
