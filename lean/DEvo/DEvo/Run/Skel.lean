/-! # Control skeletons

A tiny imperative IR into which `tools/vlib/extract.py` translates the control flow of a
handful of functions of django-evolution (`Evolver.evolve`, `SQLExecutor.__exit__`,
`EvolveAppTask.execute`, `Command.handle`, …), its trace semantics (`Exec`: every call may
return or raise, every branch may go either way, every loop may run any number of times —
so "a fault at any statement of any plan" is a quantifier over `Exec` derivations), and a
monitor-based analysis `reach` that is proved sound once (`reach_sound`) and then evaluated by
`decide` on each generated skeleton. -/

namespace DEvo.Skel

inductive Stmt where
  | call (n : String)
  | skip
  | seq (a b : Stmt)
  | ite (c : String) (t e : Stmt)
  | choice (a b : Stmt)
  | loop (c : String) (body : Stmt)
  | tryExcept (body : Stmt) (catchAll : Bool) (handler : Stmt)
  | tryFinally (body fin : Stmt)
  | raise (w : String)
  | ret
  deriving DecidableEq, Repr, Inhabited

inductive Event where
  | call (n : String) | ret (n : String) | raised (n : String)
  | branch (c : String) (b : Bool) | iter (c : String) | throw (w : String)
  deriving DecidableEq, Repr, Inhabited

inductive Outcome where
  | normal | returned | raised
  deriving DecidableEq, Repr, Inhabited

inductive Exec : Stmt → List Event → Outcome → Prop where
  | callOk (n) : Exec (.call n) [.call n, .ret n] .normal
  | callRaise (n) : Exec (.call n) [.call n, .raised n] .raised
  | skip : Exec .skip [] .normal
  | seqNormal {a b t1 t2 o} : Exec a t1 .normal → Exec b t2 o → Exec (.seq a b) (t1 ++ t2) o
  | seqStop {a b t1 o} : Exec a t1 o → o ≠ .normal → Exec (.seq a b) t1 o
  | iteT {c t e tr o} : Exec t tr o → Exec (.ite c t e) (.branch c true :: tr) o
  | iteF {c t e tr o} : Exec e tr o → Exec (.ite c t e) (.branch c false :: tr) o
  | choiceL {a b tr o} : Exec a tr o → Exec (.choice a b) tr o
  | choiceR {a b tr o} : Exec b tr o → Exec (.choice a b) tr o
  | loopDone {c b} : Exec (.loop c b) [] .normal
  | loopIter {c b t1 t2 o} : Exec b t1 .normal → Exec (.loop c b) t2 o →
      Exec (.loop c b) (.iter c :: (t1 ++ t2)) o
  | loopStop {c b t1 o} : Exec b t1 o → o ≠ .normal → Exec (.loop c b) (.iter c :: t1) o
  | tryPass {body ca h t o} : Exec body t o → o ≠ .raised → Exec (.tryExcept body ca h) t o
  | tryCaught {body ca h t1 t2 o} : Exec body t1 .raised → Exec h t2 o →
      Exec (.tryExcept body ca h) (t1 ++ t2) o
  | tryUncaught {body h t1} : Exec body t1 .raised → Exec (.tryExcept body false h) t1 .raised
  | finallyPass {body fin t1 t2 o} : Exec body t1 o → Exec fin t2 .normal →
      Exec (.tryFinally body fin) (t1 ++ t2) o
  | finallyOverride {body fin t1 t2 o o2} : Exec body t1 o → Exec fin t2 o2 → o2 ≠ .normal →
      Exec (.tryFinally body fin) (t1 ++ t2) o2
  | raise (w) : Exec (.raise w) [.throw w] .raised
  | ret : Exec .ret [] .returned

/-! ## monitors -/

structure Mon (σ : Type) where
  step : σ → Event → σ

def Mon.run {σ} (m : Mon σ) (st : σ) (tr : List Event) : σ := tr.foldl m.step st

@[simp] theorem Mon.run_nil {σ} (m : Mon σ) (st : σ) : m.run st [] = st := rfl
@[simp] theorem Mon.run_cons {σ} (m : Mon σ) (st : σ) (e : Event) (tr : List Event) :
    m.run st (e :: tr) = m.run (m.step st e) tr := rfl
theorem Mon.run_append {σ} (m : Mon σ) (st : σ) (t1 t2 : List Event) :
    m.run st (t1 ++ t2) = m.run (m.run st t1) t2 := by
  simp [Mon.run, List.foldl_append]

abbrev Res (σ : Type) := List (Outcome × σ)

def normals {σ} (r : Res σ) : List σ := r.filterMap (fun p => if p.1 = .normal then some p.2 else none)
def raiseds {σ} (r : Res σ) : List σ := r.filterMap (fun p => if p.1 = .raised then some p.2 else none)
def nonNormals {σ} (r : Res σ) : Res σ := r.filter (fun p => p.1 ≠ .normal)
def nonRaised {σ} (r : Res σ) : Res σ := r.filter (fun p => p.1 ≠ .raised)

/-- run `f` from every state of `xs`, collecting all results (fails if any run fails) -/
def bindStates {σ} (xs : List σ) (f : σ → Option (Res σ)) : Option (Res σ) :=
  match xs with
  | [] => some []
  | x :: r => match f x, bindStates r f with
    | some a, some b => some (a ++ b)
    | _, _ => none

theorem bindStates_mem {σ} {xs : List σ} {f : σ → Option (Res σ)} {R : Res σ}
    (h : bindStates xs f = some R) {x : σ} (hx : x ∈ xs) :
    ∃ Rx, f x = some Rx ∧ ∀ p ∈ Rx, p ∈ R := by
  induction xs generalizing R with
  | nil => cases hx
  | cons y r ih =>
    simp only [bindStates] at h
    cases hfy : f y with
    | none => simp [hfy] at h
    | some a =>
      cases hb : bindStates r f with
      | none => simp [hfy, hb] at h
      | some b =>
        simp only [hfy, hb] at h
        injection h with h
        subst h
        rcases List.mem_cons.mp hx with hxy | hxr
        · subst hxy
          exact ⟨a, hfy, fun p hp => List.mem_append_left _ hp⟩
        · obtain ⟨Rx, hfx, hsub⟩ := ih hb hxr
          exact ⟨Rx, hfx, fun p hp => List.mem_append_right _ (hsub p hp)⟩

/-- one round of the loop-state closure -/
def grow {σ} [DecidableEq σ] (body : σ → Option (Res σ)) (S : List σ) : List σ :=
  S ++ (S.flatMap (fun x => match body x with | some r => normals r | none => [])).filter (fun y => !S.contains y)

def growN {σ} [DecidableEq σ] (body : σ → Option (Res σ)) : Nat → List σ → List σ
  | 0, S => S
  | k + 1, S => growN body k (grow body S)

/-- is `S` closed under "one more iteration of the body ends normally"? -/
def closedUnder {σ} [DecidableEq σ] (body : σ → Option (Res σ)) (S : List σ) : Bool :=
  S.all (fun x => match body x with
    | some r => (normals r).all (fun y => S.contains y)
    | none => false)

/-- run the `finally` block from every end state of the body; a normal end of the block keeps
the body's outcome, any other end overrides it -/
def finallyStates {σ} (f : σ → Option (Res σ)) : Res σ → Option (Res σ)
  | [] => some []
  | (o, x) :: rest => match f x, finallyStates f rest with
    | some rf, some acc => some ((normals rf).map (fun y => (o, y)) ++ nonNormals rf ++ acc)
    | _, _ => none

/-- all (outcome, monitor state) pairs that an execution of the statement from monitor state
`st` can end in; `none` when the loop closure did not converge within `fuel` rounds -/
def reach {σ} [DecidableEq σ] (m : Mon σ) (fuel : Nat) : Stmt → σ → Option (Res σ)
  | .call n, st =>
    let s1 := m.step st (.call n)
    some [(.normal, m.step s1 (.ret n)), (.raised, m.step s1 (.raised n))]
  | .skip, st => some [(.normal, st)]
  | .seq a b, st =>
    match reach m fuel a st with
    | none => none
    | some ra => match bindStates (normals ra) (reach m fuel b) with
      | none => none
      | some rb => some (nonNormals ra ++ rb)
  | .ite c t e, st =>
    match reach m fuel t (m.step st (.branch c true)), reach m fuel e (m.step st (.branch c false)) with
    | some rt, some re => some (rt ++ re)
    | _, _ => none
  | .choice a b, st =>
    match reach m fuel a st, reach m fuel b st with
    | some ra, some rb => some (ra ++ rb)
    | _, _ => none
  | .loop c b, st =>
    let body := fun x => reach m fuel b (m.step x (.iter c))
    let S := growN body fuel [st]
    if closedUnder body S then
      match bindStates S body with
      | some rb => some (S.map (fun x => (Outcome.normal, x)) ++ nonNormals rb)
      | none => none
    else none
  | .tryExcept body ca h, st =>
    match reach m fuel body st with
    | none => none
    | some rb => match bindStates (raiseds rb) (reach m fuel h) with
      | none => none
      | some rh => some (nonRaised rb ++ rh ++ (if ca then [] else rb.filter (fun p => p.1 = .raised)))
  | .tryFinally body fin, st =>
    match reach m fuel body st with
    | none => none
    | some rb => finallyStates (reach m fuel fin) rb
  | .raise w, st => some [(.raised, m.step st (.throw w))]
  | .ret, st => some [(.returned, st)]

/-! ## soundness -/

theorem mem_normals {σ} {r : Res σ} {x : σ} : x ∈ normals r ↔ (Outcome.normal, x) ∈ r := by
  unfold normals
  simp only [List.mem_filterMap]
  constructor
  · rintro ⟨⟨o, y⟩, hp, h⟩
    by_cases ho : o = .normal
    · simp [ho] at h; subst h; subst ho; exact hp
    · simp [ho] at h
  · intro h; exact ⟨(.normal, x), h, by simp⟩

theorem mem_raiseds {σ} {r : Res σ} {x : σ} : x ∈ raiseds r ↔ (Outcome.raised, x) ∈ r := by
  unfold raiseds
  simp only [List.mem_filterMap]
  constructor
  · rintro ⟨⟨o, y⟩, hp, h⟩
    by_cases ho : o = .raised
    · simp [ho] at h; subst h; subst ho; exact hp
    · simp [ho] at h
  · intro h; exact ⟨(.raised, x), h, by simp⟩

theorem mem_nonNormals {σ} {r : Res σ} {o : Outcome} {x : σ} (h : (o, x) ∈ r) (ho : o ≠ .normal) :
    (o, x) ∈ nonNormals r := by
  unfold nonNormals; simp [List.mem_filter, h, ho]

theorem mem_nonRaised {σ} {r : Res σ} {o : Outcome} {x : σ} (h : (o, x) ∈ r) (ho : o ≠ .raised) :
    (o, x) ∈ nonRaised r := by
  unfold nonRaised; simp [List.mem_filter, h, ho]

theorem closedUnder_spec {σ} [DecidableEq σ] {body : σ → Option (Res σ)} {S : List σ}
    (h : closedUnder body S = true) {x : σ} (hx : x ∈ S) :
    ∃ r, body x = some r ∧ ∀ y, (Outcome.normal, y) ∈ r → y ∈ S := by
  unfold closedUnder at h
  rw [List.all_eq_true] at h
  have := h x hx
  cases hb : body x with
  | none => simp [hb] at this
  | some r =>
    simp only [hb, List.all_eq_true] at this
    refine ⟨r, rfl, ?_⟩
    intro y hy
    have := this y (mem_normals.mpr hy)
    simpa using this

theorem mem_growN_self {σ} [DecidableEq σ] (body : σ → Option (Res σ)) :
    ∀ (k : Nat) (S : List σ) (x : σ), x ∈ S → x ∈ growN body k S := by
  intro k
  induction k with
  | zero => intro S x hx; exact hx
  | succ k ih =>
    intro S x hx
    simp only [growN]
    apply ih
    unfold grow
    exact List.mem_append_left _ hx

/-- `tryFinally`'s helper, specified -/
theorem go_spec {σ} (f : σ → Option (Res σ)) :
    ∀ (rb R : Res σ), finallyStates f rb = some R →
      ∀ o x, (o, x) ∈ rb → ∃ rf, f x = some rf ∧
        (∀ y, (Outcome.normal, y) ∈ rf → (o, y) ∈ R) ∧
        (∀ o2 y, (o2, y) ∈ rf → o2 ≠ .normal → (o2, y) ∈ R) := by
  intro rb
  induction rb with
  | nil => intro R _ o x hx; cases hx
  | cons p rest ih =>
    intro R h o x hx
    obtain ⟨o1, x1⟩ := p
    simp only [finallyStates] at h
    cases hf : f x1 with
    | none => simp [hf] at h
    | some rf =>
      cases hg : finallyStates f rest with
      | none => simp [hf, hg] at h
      | some acc =>
        simp only [hf, hg] at h
        injection h with h
        subst h
        rcases List.mem_cons.mp hx with hxe | hxr
        · injection hxe with h1 h2
          subst h1; subst h2
          refine ⟨rf, hf, ?_, ?_⟩
          · intro y hy
            apply List.mem_append_left
            apply List.mem_append_left
            exact List.mem_map.mpr ⟨y, mem_normals.mpr hy, rfl⟩
          · intro o2 y hy ho2
            apply List.mem_append_left
            apply List.mem_append_right
            exact mem_nonNormals hy ho2
        · obtain ⟨rf', hf', h1, h2⟩ := ih acc hg o x hxr
          exact ⟨rf', hf', fun y hy => List.mem_append_right _ (h1 y hy),
            fun o2 y hy ho2 => List.mem_append_right _ (h2 o2 y hy ho2)⟩

/-- **Soundness of the analysis**: whatever an execution of the skeleton does — any branch,
any number of loop iterations, a fault in any call — the pair (outcome, final monitor state)
is among those computed by `reach`. -/
theorem reach_sound {σ} [DecidableEq σ] (m : Mon σ) (fuel : Nat) :
    ∀ (s : Stmt) (st : σ) (R : Res σ), reach m fuel s st = some R →
      ∀ tr o, Exec s tr o → (o, m.run st tr) ∈ R := by
  intro s
  induction s with
  | call n =>
    intro st R h tr o hex
    simp only [reach] at h
    injection h with h; subst h
    cases hex with
    | callOk => simp [Mon.run]
    | callRaise => simp [Mon.run]
  | skip =>
    intro st R h tr o hex
    simp only [reach] at h
    injection h with h; subst h
    cases hex; simp
  | seq a b iha ihb =>
    intro st R h tr o hex
    simp only [reach] at h
    cases hra : reach m fuel a st with
    | none => simp [hra] at h
    | some ra =>
      cases hrb : bindStates (normals ra) (reach m fuel b) with
      | none => simp [hra, hrb] at h
      | some rb =>
        simp only [hra, hrb] at h
        injection h with h; subst h
        cases hex with
        | seqNormal h1 h2 =>
          rename_i t1 t2
          have hm := iha st ra hra _ _ h1
          obtain ⟨Rx, hfx, hsub⟩ := bindStates_mem hrb (mem_normals.mpr hm)
          rw [Mon.run_append]
          exact List.mem_append_right _ (hsub _ (ihb _ Rx hfx _ _ h2))
        | seqStop h1 hne =>
          exact List.mem_append_left _ (mem_nonNormals (iha st ra hra _ _ h1) hne)
  | ite c t e iht ihe =>
    intro st R h tr o hex
    simp only [reach] at h
    cases hrt : reach m fuel t (m.step st (.branch c true)) with
    | none => simp [hrt] at h
    | some rt =>
      cases hre : reach m fuel e (m.step st (.branch c false)) with
      | none => simp [hrt, hre] at h
      | some re =>
        simp only [hrt, hre] at h
        injection h with h; subst h
        cases hex with
        | iteT h1 => exact List.mem_append_left _ (iht _ rt hrt _ _ h1)
        | iteF h1 => exact List.mem_append_right _ (ihe _ re hre _ _ h1)
  | choice a b iha ihb =>
    intro st R h tr o hex
    simp only [reach] at h
    cases hra : reach m fuel a st with
    | none => simp [hra] at h
    | some ra =>
      cases hrb : reach m fuel b st with
      | none => simp [hra, hrb] at h
      | some rb =>
        simp only [hra, hrb] at h
        injection h with h; subst h
        cases hex with
        | choiceL h1 => exact List.mem_append_left _ (iha _ ra hra _ _ h1)
        | choiceR h1 => exact List.mem_append_right _ (ihb _ rb hrb _ _ h1)
  | loop c b ihb =>
    intro st R h tr o hex
    simp only [reach] at h
    split at h
    · rename_i hclosed
      cases hbs : bindStates (growN (fun x => reach m fuel b (m.step x (.iter c))) fuel [st])
          (fun x => reach m fuel b (m.step x (.iter c))) with
      | none => simp [hbs] at h
      | some rb =>
        simp only [hbs] at h
        injection h with h; subst h
        -- inner induction on the execution of the loop, for every start state in S
        have key : ∀ (s' : Stmt) tr o, Exec s' tr o → s' = .loop c b →
            ∀ x, x ∈ growN (fun x => reach m fuel b (m.step x (.iter c))) fuel [st] →
            (o, m.run x tr) ∈
              (growN (fun x => reach m fuel b (m.step x (.iter c))) fuel [st]).map
                (fun x => (Outcome.normal, x)) ++ nonNormals rb := by
          intro s' tr o hex'
          induction hex' with
          | loopDone =>
            intro _ x hx
            exact List.mem_append_left _ (List.mem_map.mpr ⟨x, hx, rfl⟩)
          | loopIter h1 h2 _ ih2 =>
            intro heq x hx
            injection heq with hc hb
            subst hc; subst hb
            obtain ⟨r, hr, hcl⟩ := closedUnder_spec hclosed hx
            have hm := ihb _ r hr _ _ h1
            have hy := hcl _ hm
            simp only [Mon.run_cons, Mon.run_append]
            exact ih2 rfl _ hy
          | loopStop h1 hne =>
            intro heq x hx
            injection heq with hc hb
            subst hc; subst hb
            obtain ⟨Rx, hfx, hsub⟩ := bindStates_mem hbs hx
            have hm := ihb _ Rx hfx _ _ h1
            simp only [Mon.run_cons]
            exact List.mem_append_right _ (mem_nonNormals (hsub _ hm) hne)
          | _ => intro heq; cases heq
        exact key _ _ _ hex rfl st (mem_growN_self _ _ _ _ List.mem_cons_self)
    · cases h
  | tryExcept body ca hd ihb ihh =>
    intro st R h tr o hex
    simp only [reach] at h
    cases hrb : reach m fuel body st with
    | none => simp [hrb] at h
    | some rb =>
      cases hrh : bindStates (raiseds rb) (reach m fuel hd) with
      | none => simp [hrb, hrh] at h
      | some rh =>
        simp only [hrb, hrh] at h
        injection h with h; subst h
        cases hex with
        | tryPass h1 hne =>
          apply List.mem_append_left
          apply List.mem_append_left
          exact mem_nonRaised (ihb _ rb hrb _ _ h1) hne
        | tryCaught h1 h2 =>
          have hm := ihb _ rb hrb _ _ h1
          obtain ⟨Rx, hfx, hsub⟩ := bindStates_mem hrh (mem_raiseds.mpr hm)
          rw [Mon.run_append]
          apply List.mem_append_left
          apply List.mem_append_right
          exact hsub _ (ihh _ Rx hfx _ _ h2)
        | tryUncaught h1 =>
          have hm := ihb _ rb hrb _ _ h1
          apply List.mem_append_right
          simp [List.mem_filter, hm]
  | tryFinally body fin ihb ihf =>
    intro st R h tr o hex
    simp only [reach] at h
    cases hrb : reach m fuel body st with
    | none => simp [hrb] at h
    | some rb =>
      simp only [hrb] at h
      cases hex with
      | finallyPass h1 h2 =>
        have hm := ihb _ rb hrb _ _ h1
        obtain ⟨rf, hf, hn, _⟩ := go_spec (reach m fuel fin) rb R h _ _ hm
        rw [Mon.run_append]
        exact hn _ (ihf _ rf hf _ _ h2)
      | finallyOverride h1 h2 hne =>
        have hm := ihb _ rb hrb _ _ h1
        obtain ⟨rf, hf, _, hnn⟩ := go_spec (reach m fuel fin) rb R h _ _ hm
        rw [Mon.run_append]
        exact hnn _ _ (ihf _ rf hf _ _ h2) hne
  | raise w =>
    intro st R h tr o hex
    simp only [reach] at h
    injection h with h; subst h
    cases hex; simp [Mon.run]
  | ret =>
    intro st R h tr o hex
    simp only [reach] at h
    injection h with h; subst h
    cases hex; simp

/-- `reach` + a decidable predicate over all computed (outcome, state) pairs -/
def checkAll {σ} [DecidableEq σ] (m : Mon σ) (fuel : Nat) (s : Stmt) (st : σ)
    (P : Outcome → σ → Bool) : Bool :=
  match reach m fuel s st with
  | some R => R.all (fun p => P p.1 p.2)
  | none => false

/-- the form in which property files use the analysis: if every computed pair satisfies a
decidable predicate, every execution does -/
theorem reach_all {σ} [DecidableEq σ] (m : Mon σ) (fuel : Nat) (s : Stmt) (st : σ)
    (P : Outcome → σ → Bool)
    (h : checkAll m fuel s st P = true) :
    ∀ tr o, Exec s tr o → P o (m.run st tr) = true := by
  intro tr o hex
  unfold checkAll at h
  cases hr : reach m fuel s st with
  | none => simp [hr] at h
  | some R =>
    simp only [hr, List.all_eq_true] at h
    exact h _ (reach_sound m fuel s st R hr tr o hex)

end DEvo.Skel
