/-! Bookkeeping model of a series of upgrade runs against one database: which evolution labels
are recorded (`django_evolution` rows), which are executed, by which run
(`EvolveAppTask.prepare`, `Evolver.evolve` / `_save_project_sig`, the `mark-evolution-applied`
and `wipe-evolution` commands). -/

namespace DEvo.Run

structure AppCfg where
  label : String
  sequence : List String        -- SEQUENCE of the app's evolutions at the time of the run
  deriving DecidableEq, Repr, Inhabited

structure Rec where
  app : String
  label : String
  version : Nat
  deriving DecidableEq, Repr, Inhabited

structure HState where
  recorded : List Rec           -- rows of django_evolution
  known : List String           -- apps that have a signature in the stored project signature
  versions : Nat                -- number of django_project_version rows
  deriving DecidableEq, Repr, Inhabited

def isRecorded (s : HState) (app label : String) : Bool := s.recorded.any (fun r => r.app == app && r.label == label)

/-- `get_unapplied_evolutions` -/
def unapplied (s : HState) (a : AppCfg) : List String := a.sequence.filter (fun l => !isRecorded s a.label l)

/-- labels a task intends to record (`new_evolutions`) and labels whose SQL it executes -/
def taskPlan (s : HState) (a : AppCfg) : List String × List String :=
  if s.known.contains a.label then (unapplied s a, unapplied s a)   -- existing app: apply what is unapplied
  else (a.sequence, [])                                             -- new app: record the whole sequence, execute none

inductive Step where
  /-- one `Evolver.evolve()` over the given apps; `completes = false`: some task failed -/
  | run (apps : List AppCfg) (completes : Bool)
  | markApplied (app : String) (labels : List String)    -- the command refuses labels already recorded
  | wipe (app : String) (label : String)
  deriving Repr, Inhabited

def newRecords (s : HState) (apps : List AppCfg) : List Rec :=
  apps.flatMap (fun a => (taskPlan s a).1.map (fun l => ⟨a.label, l, s.versions + 1⟩))

def executed (s : HState) (apps : List AppCfg) : List (String × String) :=
  apps.flatMap (fun a => (taskPlan s a).2.map (fun l => (a.label, l)))

def stepH (s : HState) : Step → HState
  | .run apps true =>
    { recorded := s.recorded ++ newRecords s apps,
      known := s.known ++ (apps.map (·.label)).filter (fun l => !s.known.contains l),
      versions := s.versions + 1 }
  | .run _ false => s      -- `_save_project_sig` is reached only after every task returned (C07)
  | .markApplied app labels =>
    if labels.any (fun l => isRecorded s app l) then s
    else { s with recorded := s.recorded ++ labels.map (fun l => ⟨app, l, s.versions⟩) }
  | .wipe app label =>
    match s.recorded.filter (fun r => r.app == app && r.label == label) with
    | [_] => { s with recorded := s.recorded.filter (fun r => !(r.app == app && r.label == label)) }
    | _ => s

def keys (s : HState) : List (String × String) := s.recorded.map (fun r => (r.app, r.label))

end DEvo.Run
