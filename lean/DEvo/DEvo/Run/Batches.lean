/-! Model of `SQLExecutor._prepare_transaction_batches` (django_evolution/utils/sql.py): the prepared
statements — each with the flags `use_transaction` / `new_transaction` that `_prepare_sql` gave it —
are cut into batches, and every batch is handed to `run_sql` with ONE flag that says whether it runs
inside a transaction.  `yieldLast` is the variant read off the source: the flag yielded with a
finished batch is `last_use_transaction` (the flag of the batch), not the flag of the statement that
starts the next one. -/

namespace DEvo.Run

structure Prep where
  stmt : String
  useTx : Bool
  newTx : Bool
  deriving DecidableEq, Repr, Inhabited

/-- what an evolution hands to the executor: plain statements, or a group that must run outside a
transaction (`NoTransactionSQL`), or one that must start a transaction of its own (`NewTransactionSQL`) -/
inductive Group where
  | plain (ss : List String)
  | noTx (ss : List String)
  | newTx (ss : List String)
  deriving DecidableEq, Repr, Inhabited

/-- `_prepare_sql` drops empty statements and comments (statements arrive stripped) -/
def keepStmt (s : String) : Bool :=
  match s.toList with
  | [] => false
  | '-' :: '-' :: _ => false
  | _ => true

/-- `_prepare_sql` for one group: the flags of its statements; only the first kept statement of a
`NewTransactionSQL` group asks for the new transaction -/
def prepareGroup : Group → List Prep
  | .plain ss => (ss.filter keepStmt).map (fun s => ⟨s, true, false⟩)
  | .noTx ss => (ss.filter keepStmt).map (fun s => ⟨s, false, false⟩)
  | .newTx ss =>
    match ss.filter keepStmt with
    | [] => []
    | s :: r => ⟨s, true, true⟩ :: r.map (fun t => ⟨t, true, false⟩)

def prepare (gs : List Group) : List Prep := gs.flatMap prepareGroup

/-- the loop: `batch`/`last` are the loop variables (`last = none` is Python's initial `None`, which
`is not` every flag) -/
def cutLoop (yieldLast : Bool) : List Prep → List Prep → Option Bool → List (List Prep × Option Bool)
  | [], batch, last => if batch.isEmpty then [] else [(batch, last)]
  | p :: rest, batch, last =>
    if p.newTx || last != some p.useTx then
      (if batch.isEmpty then [] else [(batch, if yieldLast then last else some p.useTx)]) ++
        cutLoop yieldLast rest [p] (some p.useTx)
    else cutLoop yieldLast rest (batch ++ [p]) last

def cut (yieldLast : Bool) (ps : List Prep) : List (List Prep × Option Bool) := cutLoop yieldLast ps [] none

/-- nothing is lost, duplicated or reordered (whatever flag is yielded) -/
theorem cutLoop_flatten (yl : Bool) : ∀ (ps batch : List Prep) (last : Option Bool),
    (cutLoop yl ps batch last).flatMap (·.1) = batch ++ ps := by
  intro ps
  induction ps with
  | nil => intro batch last; cases batch <;> simp [cutLoop]
  | cons p rest ih =>
    intro batch last
    unfold cutLoop
    split
    · cases batch <;> simp [ih]
    · simp [ih]

/-- with the batch's own flag yielded, every statement of a batch carries the flag of the batch -/
theorem cutLoop_flags : ∀ (ps batch : List Prep) (last : Option Bool),
    (∀ q ∈ batch, some q.useTx = last) →
    ∀ bf ∈ cutLoop true ps batch last, ∀ q ∈ bf.1, some q.useTx = bf.2 := by
  intro ps
  induction ps with
  | nil =>
    intro batch last hb bf hbf q hq
    cases batch with
    | nil => simp [cutLoop] at hbf
    | cons b bs =>
      simp [cutLoop] at hbf
      subst hbf
      exact hb q hq
  | cons p rest ih =>
    intro batch last hb bf hbf q hq
    unfold cutLoop at hbf
    split at hbf
    · rcases List.mem_append.mp hbf with h | h
      · cases batch with
        | nil => simp at h
        | cons b bs =>
          simp at h
          subst h
          exact hb q hq
      · exact ih [p] (some p.useTx) (by intro q hq; simp at hq; subst hq; rfl) bf h q hq
    · rename_i hc
      have hlast : last = some p.useTx := by
        cases hl : last with
        | none => simp [hl] at hc
        | some v =>
          simp [hl] at hc
          simp [hc.2]
      refine ih (batch ++ [p]) last ?_ bf hbf q hq
      intro q hq
      rcases List.mem_append.mp hq with h | h
      · exact hb q h
      · simp at h; subst h; exact hlast.symm

/-- only the first statement of a batch may ask for a new transaction -/
theorem cutLoop_newTx_first (yl : Bool) : ∀ (ps batch : List Prep) (last : Option Bool),
    (∀ q ∈ batch.tail, q.newTx = false) →
    ∀ bf ∈ cutLoop yl ps batch last, ∀ q ∈ bf.1.tail, q.newTx = false := by
  intro ps
  induction ps with
  | nil =>
    intro batch last hb bf hbf q hq
    cases batch with
    | nil => simp [cutLoop] at hbf
    | cons b bs =>
      simp [cutLoop] at hbf
      subst hbf
      exact hb q hq
  | cons p rest ih =>
    intro batch last hb bf hbf q hq
    unfold cutLoop at hbf
    split at hbf
    · rcases List.mem_append.mp hbf with h | h
      · cases batch with
        | nil => simp at h
        | cons b bs =>
          simp at h
          subst h
          exact hb q hq
      · exact ih [p] (some p.useTx) (by simp) bf h q hq
    · rename_i hc
      have hp : p.newTx = false := by
        cases hn : p.newTx with
        | false => rfl
        | true => simp [hn] at hc
      refine ih (batch ++ [p]) last ?_ bf hbf q hq
      intro q hq
      cases batch with
      | nil => simp at hq
      | cons b bs =>
        simp at hq
        rcases hq with h | h
        · exact hb q (by simpa using h)
        · subst h; exact hp

/-- ordinary statements only (no NoTransactionSQL, no NewTransactionSQL): one batch, in a transaction -/
theorem cutLoop_ordinary : ∀ (ps batch : List Prep),
    (∀ q ∈ ps, q.useTx = true ∧ q.newTx = false) → batch ≠ [] →
    cutLoop true ps batch (some true) = [(batch ++ ps, some true)] := by
  intro ps
  induction ps with
  | nil => intro batch _ hb; cases batch <;> simp_all [cutLoop]
  | cons p rest ih =>
    intro batch h hb
    have hp := h p (by simp)
    unfold cutLoop
    simp [hp.1, hp.2]
    rw [ih (batch ++ [p]) (fun q hq => h q (by simp [hq])) (by simp)]
    simp

theorem cut_ordinary (p : Prep) (ps : List Prep)
    (h : ∀ q ∈ p :: ps, q.useTx = true ∧ q.newTx = false) :
    cut true (p :: ps) = [(p :: ps, some true)] := by
  have hp := h p (by simp)
  unfold cut cutLoop
  simp [hp.1, hp.2]
  exact cutLoop_ordinary ps [p] (fun q hq => h q (by simp [hq])) (by simp)

end DEvo.Run
