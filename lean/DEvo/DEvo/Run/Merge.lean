/-! Model of how `EvolveAppTask._build_batches` folds the information of consecutive graph nodes of one
kind into ONE batch: `merge_dicts(prev_batch_info, batch_info)` (django_evolution/utils/datastructures.py)
on dictionaries of the shape `{'task_evolutions': {task: {'evolutions': [...], 'mutations': [...]}},
'new_models_tasks': [...]}` - lists under the same key are concatenated destination first, keys the
destination lacks are added after its own.  `destFirst` is the variant read off the source. -/

namespace DEvo.Run

structure TaskInfo where
  evolutions : List String
  mutations : List String
  deriving DecidableEq, Repr, Inhabited

structure BatchInfo where
  tasks : List (String × TaskInfo)        -- in insertion order (an OrderedDict)
  newModels : List String
  deriving DecidableEq, Repr, Inhabited

def cat (destFirst : Bool) (d s : List String) : List String := if destFirst then d ++ s else s ++ d

def mergeTask (destFirst : Bool) (d s : TaskInfo) : TaskInfo :=
  ⟨cat destFirst d.evolutions s.evolutions, cat destFirst d.mutations s.mutations⟩

/-- one key of the source's `task_evolutions` merged into the destination's -/
def mergeInto (destFirst : Bool) : List (String × TaskInfo) → String × TaskInfo → List (String × TaskInfo)
  | [], kv => [kv]
  | (k, v) :: rest, (k', v') =>
    if k == k' then (k, mergeTask destFirst v v') :: rest else (k, v) :: mergeInto destFirst rest (k', v')

def mergeBatch (destFirst : Bool) (d s : BatchInfo) : BatchInfo :=
  ⟨s.tasks.foldl (mergeInto destFirst) d.tasks, cat destFirst d.newModels s.newModels⟩

def evolutionsOf (ts : List (String × TaskInfo)) (task : String) : List String :=
  match ts.find? (fun kv => kv.1 == task) with
  | some kv => kv.2.evolutions
  | none => []

theorem evolutionsOf_mergeInto (ts : List (String × TaskInfo)) (kv : String × TaskInfo) (task : String) :
    evolutionsOf (mergeInto true ts kv) task =
      evolutionsOf ts task ++ (if kv.1 == task then kv.2.evolutions else []) := by
  induction ts with
  | nil =>
    by_cases h : kv.1 == task <;> simp [mergeInto, evolutionsOf, List.find?, h]
  | cons hd tl ih =>
    obtain ⟨k, v⟩ := hd
    obtain ⟨k', v'⟩ := kv
    by_cases hk : k == k'
    · have hk' : k = k' := by simpa using hk
      subst hk'
      by_cases ht : k == task
      · simp [mergeInto, evolutionsOf, List.find?, ht, mergeTask, cat]
      · simp [mergeInto, evolutionsOf, List.find?, ht]
    · by_cases ht : k == task
      · have hne : (k' == task) = false := by
          have h1 : k = task := by simpa using ht
          subst h1
          cases hq : (k' == k) with
          | false => rfl
          | true =>
            have : k' = k := by simpa using hq
            subst this
            simp at hk
        simp [mergeInto, hk, evolutionsOf, List.find?, ht, hne]
      · have hk2 : (k == k') = false := by simpa using hk
        have ht2 : (k == task) = false := by simpa using ht
        have := ih
        simp only [evolutionsOf] at this
        simp only [evolutionsOf, mergeInto, hk2, Bool.false_eq_true, if_false, List.find?, ht2]
        exact this

/-- a task's evolutions in a merged batch: the destination's, then what the source has for it -/
theorem evolutionsOf_fold (src : List (String × TaskInfo)) : ∀ (ts : List (String × TaskInfo)) (task : String),
    evolutionsOf (src.foldl (mergeInto true) ts) task =
      evolutionsOf ts task ++ (src.filter (fun kv => kv.1 == task)).flatMap (·.2.evolutions) := by
  induction src with
  | nil => intro ts task; simp
  | cons kv rest ih =>
    intro ts task
    rw [List.foldl_cons, ih, evolutionsOf_mergeInto]
    by_cases h : kv.1 == task <;> simp [List.filter, h]

end DEvo.Run
