import DEvo.Run.Skel

/-! Monitors used by the property files: small finite automata over skeleton events. -/

namespace DEvo.Skel

/-- structural substring test on character lists (reduces in the kernel) -/
def isPrefixL : List Char → List Char → Bool
  | [], _ => true
  | _ :: _, [] => false
  | a :: p, b :: s => a == b && isPrefixL p s

def hasSubL (pat : List Char) : List Char → Bool
  | [] => pat.isEmpty
  | c :: s => isPrefixL pat (c :: s) || hasSubL pat s

def hasSub (pat s : String) : Bool := hasSubL pat.toList s.toList

inductive Dom where
  | waiting | armed | bad
  deriving DecidableEq, Repr, Inhabited

/-- "every `call b` is preceded by a normal return of `a`" -/
def domStep (a b : String) (st : Dom) (ev : Event) : Dom :=
  match st, ev with
  | .waiting, .ret n => if n == a then .armed else .waiting
  | .waiting, .call n => if n == b then .bad else .waiting
  | st, _ => st

def domMon (a b : String) : Mon Dom := ⟨domStep a b⟩

/-- dominance, reported as a Bool for a generated skeleton -/
def dominates (a b : String) (s : Stmt) : Bool :=
  checkAll (domMon a b) 8 s .waiting (fun _ st => st != .bad)

theorem dominates_sound (a b : String) (s : Stmt) (h : dominates a b s = true) :
    ∀ tr o, Exec s tr o → (domMon a b).run .waiting tr ≠ .bad := by
  intro tr o hex
  have := reach_all (domMon a b) 8 s .waiting (fun _ st => st != .bad) h tr o hex
  simpa using this

theorem dom_run_bad (a b : String) : ∀ tr, (domMon a b).run .bad tr = .bad := by
  intro tr; induction tr with
  | nil => rfl
  | cons e tr ih => simp only [Mon.run_cons]; exact ih

theorem dom_run_armed (a b : String) : ∀ tr, (domMon a b).run .armed tr = .armed := by
  intro tr; induction tr with
  | nil => rfl
  | cons e tr ih => simp only [Mon.run_cons]; exact ih

/-- what `≠ bad` means on the trace itself: before any `call b` there is a `ret a` -/
theorem domMon_meaning (a b : String) :
    ∀ (tr : List Event), (domMon a b).run .waiting tr ≠ .bad →
      ∀ pre post, tr = pre ++ Event.call b :: post → Event.ret a ∈ pre := by
  intro tr
  induction tr with
  | nil => intro _ pre post h; cases pre <;> cases h
  | cons e tr ih =>
    intro hrun pre post heq
    simp only [Mon.run_cons] at hrun
    cases pre with
    | nil =>
      simp only [List.nil_append] at heq
      injection heq with he _
      subst he
      exfalso; apply hrun
      have : (domMon a b).step .waiting (Event.call b) = .bad := by simp [domMon, domStep]
      rw [this]; exact dom_run_bad a b tr
    | cons p pre =>
      simp only [List.cons_append] at heq
      injection heq with he ht
      subst he
      by_cases hpa : e = Event.ret a
      · subst hpa; exact List.mem_cons_self
      · apply List.mem_cons_of_mem
        apply ih _ pre post ht
        have hstep : (domMon a b).step .waiting e = .waiting ∨ (domMon a b).step .waiting e = .bad := by
          cases e with
          | ret n =>
            have : n ≠ a := fun h => hpa (by rw [h])
            left; simp [domMon, domStep, this]
          | call n =>
            by_cases hn : n = b
            · right; simp [domMon, domStep, hn]
            · left; simp [domMon, domStep, hn]
          | raised n => left; rfl
          | branch c bb => left; rfl
          | iter c => left; rfl
          | throw w => left; rfl
        rcases hstep with h | h
        · rw [h] at hrun; exact hrun
        · rw [h] at hrun; exact absurd (dom_run_bad a b tr) hrun

/-- "event `ev` occurred" -/
def seenMon (ev : Event) : Mon Bool := ⟨fun st e => st || e == ev⟩

theorem seen_run_true (ev : Event) : ∀ tr, (seenMon ev).run true tr = true := by
  intro tr; induction tr with
  | nil => rfl
  | cons e tr ih => simp only [Mon.run_cons, seenMon, Bool.true_or]; exact ih

theorem seenMon_meaning (ev : Event) : ∀ tr, (seenMon ev).run false tr = false → ev ∉ tr := by
  intro tr
  induction tr with
  | nil => intro _ h; cases h
  | cons e tr ih =>
    intro hrun hmem
    simp only [Mon.run_cons] at hrun
    by_cases he : e = ev
    · subst he
      have : (seenMon e).step false e = true := by simp [seenMon]
      rw [this, seen_run_true] at hrun
      cases hrun
    · have : (seenMon ev).step false e = false := by simp [seenMon, he]
      rw [this] at hrun
      rcases List.mem_cons.mp hmem with h | h
      · exact he h.symm
      · exact ih hrun h

/-- the skeleton never produces event `ev` -/
def neverOccurs (ev : Event) (s : Stmt) : Bool := checkAll (seenMon ev) 8 s false (fun _ st => !st)

theorem neverOccurs_sound (ev : Event) (s : Stmt) (h : neverOccurs ev s = true) :
    ∀ tr o, Exec s tr o → ev ∉ tr := by
  intro tr o hex
  have := reach_all (seenMon ev) 8 s false (fun _ st => !st) h tr o hex
  exact seenMon_meaning ev tr (by simpa using this)

end DEvo.Skel
