import DEvo.Run.Monitors
import DEvo.Generated.Skeletons

/-! Transaction model of one `SQLExecutor` batch (django_evolution/utils/sql.py): the
statements of a batch run between `atomic().__enter__()` and `atomic.__exit__(…)`; what is passed
to `__exit__` decides whether a failing batch is rolled back or committed.  SQLite's transactional
DDL (statements between BEGIN and ROLLBACK are undone) is assumed and observed by the
fault-injection correspondence. -/

namespace DEvo.Run
open DEvo.Skel

inductive Res where
  | ok
  | failed (k : Nat)
  deriving DecidableEq, Repr, Inhabited

/-- execute statements inside one transaction; `failAt = some k` makes statement `k` fail.
Returns the statements executed so far in the open transaction and the result. -/
def execStmts : List String → Option Nat → Nat → List String → List String × Res
  | [], _, _, done => (done, .ok)
  | s :: rest, failAt, i, done =>
    if failAt == some i then (done, .failed i) else execStmts rest failAt (i + 1) (done ++ [s])

/-- one batch against a database represented by the list of applied statements -/
def runBatch (commitOnFailure : Bool) (stmts : List String) (failAt : Option Nat) (db : List String) :
    List String × Res :=
  match execStmts stmts failAt 0 [] with
  | (done, .ok) => (db ++ done, .ok)                        -- atomic.__exit__(None, None, None): COMMIT
  | (done, .failed k) => (if commitOnFailure then db ++ done else db, .failed k)

/-- does a skeleton contain a call with exactly this name? -/
def hasCall (n : String) : Stmt → Bool
  | .call m => m == n
  | .seq a b => hasCall n a || hasCall n b
  | .ite _ t e => hasCall n t || hasCall n e
  | .choice a b => hasCall n a || hasCall n b
  | .loop _ b => hasCall n b
  | .tryExcept b _ h => hasCall n b || hasCall n h
  | .tryFinally b f => hasCall n b || hasCall n f
  | _ => false

/-- the variant in force, read off the generated skeletons: `finish_transaction` leaves the
atomic block with `(None, None, None)` — i.e. as if nothing had failed — on every path -/
def commitOnFailure : Bool :=
  hasCall "transaction.__exit__(None, None, None)" Generated.sqlExecutorFinishTransaction

theorem execStmts_ok_all : ∀ (stmts : List String) (i : Nat) (done : List String),
    execStmts stmts none i done = (done ++ stmts, .ok) := by
  intro stmts
  induction stmts with
  | nil => intro i done; simp [execStmts]
  | cons s rest ih => intro i done; simp [execStmts, ih]

theorem execStmts_fail : ∀ (stmts : List String) (k i : Nat) (done : List String),
    k < stmts.length → execStmts stmts (some (i + k)) i done = (done ++ stmts.take k, .failed (i + k)) := by
  intro stmts
  induction stmts with
  | nil => intro k i done h; simp at h
  | cons s rest ih =>
    intro k i done h
    cases k with
    | zero => simp [execStmts]
    | succ k =>
      have hne : (some (i + (k + 1)) == some i) = false := by simp
      simp only [execStmts, hne, Bool.false_eq_true, if_false]
      have := ih k (i + 1) (done ++ [s]) (by simpa using h)
      have e : i + 1 + k = i + (k + 1) := by omega
      rw [e] at this
      rw [this]
      simp

end DEvo.Run
