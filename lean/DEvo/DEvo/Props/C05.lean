import DEvo.Sig.DiffLemmas
import DEvo.Generated.Tables
import DEvo.Mut.Env
import DEvo.Mut.Refs

/-! # C05 — the hinted evolution for a model change fully resolves that change -/

namespace DEvo.Props.C05
open DEvo.Sig DEvo.Mut

/-! ## a signature has an empty difference with itself (and with its clone, which in the model
is the same value) -/

theorem C05_self_field (e : Env) (f : FieldSig) : diffField e f f = [] := by
  rw [diffField_eq_nil]
  constructor
  · simp [extraKeys]
  · unfold changedKeys
    rw [List.filter_eq_nil_iff]
    intro a _; simp

def UniqueFields (m : ModelSig) : Prop := m.fields.Pairwise (fun x y => x.name ≠ y.name)

theorem find_self_of_pairwise {α} (key : α → String) {l : List α}
    (h : l.Pairwise (fun x y => key x ≠ key y)) {a : α} (ha : a ∈ l) :
    l.find? (fun x => key x == key a) = some a := by
  induction l with
  | nil => cases ha
  | cons x r ih =>
    rw [List.pairwise_cons] at h
    rcases List.mem_cons.mp ha with hax | har
    · subst hax; simp
    · have hne : key x ≠ key a := h.1 a har
      have : (key x == key a) = false := by simpa using hne
      simp only [List.find?, this]
      exact ih h.2 har

theorem C05_self_model (e : Env) (m : ModelSig) (hu : UniqueFields m) :
    diffModel e m m = ⟨[], [], [], []⟩ := by
  have hget : ∀ f ∈ m.fields, m.getField f.name = some f := fun f hf =>
    find_self_of_pairwise (fun x : FieldSig => x.name) hu hf
  have h1 : changedFieldsOf e m m = [] := by
    unfold changedFieldsOf
    rw [List.filterMap_eq_nil_iff]
    intro f hf
    simp [hget f hf, C05_self_field]
  have h2 : deletedFieldsOf m m = [] := by
    unfold deletedFieldsOf
    have : m.fields.filter (fun f => (m.getField f.name).isNone) = [] := by
      rw [List.filter_eq_nil_iff]
      intro f hf; simp [hget f hf]
    rw [this]; rfl
  have h3 : metaChangedOf m m = [] := by simp [metaChangedOf, utChanged]
  unfold diffModel; rw [h1, h2, h3]

theorem C05_self_app (e : Env) (a : AppSig) (hu : UniqueModels a)
    (hf : ∀ m ∈ a.models, UniqueFields m) : (diffApp e a a).isEmpty = true := by
  have hget : ∀ m ∈ a.models, a.getModel m.name = some m := fun m hm =>
    find_self_of_pairwise (fun x : ModelSig => x.name) hu hm
  have h1 : changedModelsOf e a a = [] := by
    unfold changedModelsOf
    rw [List.filterMap_eq_nil_iff]
    intro m hm
    simp [hget m hm, C05_self_model e m (hf m hm), ModelDiff.isEmpty]
  have h2 : deletedModelsOf a a = [] := by
    unfold deletedModelsOf
    have : a.models.filter (fun m => (a.getModel m.name).isNone) = [] := by
      rw [List.filter_eq_nil_iff]
      intro m hm; simp [hget m hm]
    rw [this]; rfl
  have h3 : appMetaChangedOf a a = [] := by simp [appMetaChangedOf]
  unfold diffApp
  split <;> simp [AppDiff.isEmpty, h1, h2, h3]

/-- **empty difference with itself** — every project signature whose dictionaries have unique
keys (as Python dictionaries do) -/
theorem C05_self (e : Env) (p : ProjectSig) (hu : UniqueApps p)
    (hm : ∀ a ∈ p.apps, UniqueModels a) (hf : ∀ a ∈ p.apps, ∀ m ∈ a.models, UniqueFields m) :
    diffProject e p p = ⟨[], []⟩ := by
  have hget : ∀ a ∈ p.apps, p.getApp a.id = some a := by
    intro a ha
    unfold ProjectSig.getApp
    rw [find_self_of_pairwise (fun x : AppSig => x.id) hu ha]
  have h1 : changedAppsOf e p p = [] := by
    unfold changedAppsOf
    rw [List.filterMap_eq_nil_iff]
    intro a ha
    simp [hget a ha, C05_self_app e a (hm a ha) (hf a ha)]
  have h2 : deletedAppsOf p p = [] := by
    unfold deletedAppsOf
    have : p.apps.filter (fun a => (p.getApp a.id).isNone) = [] := by
      rw [List.filter_eq_nil_iff]
      intro a ha; simp [hget a ha]
    rw [this]; rfl
  unfold diffProject; rw [h1, h2]

/-! ## closure: attribute changes -/

/-- **every tracked attribute, changed alone or in combination**: for any two versions `f`
(old) and `g` (new) of a field with the same type and relation, the hinted
`ChangeField(attr=new value for every differing attr)` turns `f` into a field with no remaining
difference from `g`, in both directions. -/
theorem C05_closure_changeField (e : Env) (f g : FieldSig) (ht : f.ftype = g.ftype)
    (hr : f.related = g.related) :
    let hint := (diffField e f g).map (fun a => (a, e.attrValue g a))
    diffField e (changedField e f none hint) g = [] ∧ diffField e g (changedField e f none hint) = [] := by
  intro hint
  -- the value of every attribute after the change
  have hattrs : (changedField e f none hint).attrs = dUpdate f.attrs hint := by
    simp [changedField]
  have hty : (changedField e f none hint).ftype = g.ftype := by simp [changedField, ht]
  have hrel : (changedField e f none hint).related = g.related := by simp [changedField, hr]
  have hval : ∀ a, a ∈ f.attrs.map (·.1) ∨ a ∈ g.attrs.map (·.1) ∨ a ∈ diffField e f g →
      e.attrValue (changedField e f none hint) a = e.attrValue g a := by
    intro a ha
    unfold Env.attrValue
    rw [hattrs, dGet_dUpdate, lastBinding_map_fun, hty]
    by_cases hd : a ∈ diffField e f g
    · simp only [hd, if_true]
      rfl
    · simp only [hd, if_false]
      -- not in the diff although it is a key of one of the two: the values already agree
      have hkey : a ∈ f.attrs.map (·.1) ++ g.attrs.map (·.1) := by
        rcases ha with h | h | h
        · exact List.mem_append_left _ h
        · exact List.mem_append_right _ h
        · exact absurd h hd
      have hnot : ¬ (e.attrValue g a != e.attrValue f a) = true := by
        intro hne
        apply hd
        rw [mem_diffField]
        right
        exact List.mem_filter.mpr ⟨hkey, hne⟩
      have heq : e.attrValue g a = e.attrValue f a := by simpa using hnot
      unfold Env.attrValue at heq
      rw [← ht] at heq ⊢
      exact heq.symm
  have hkeys : ∀ a, a ∈ (changedField e f none hint).attrs.map (·.1) →
      a ∈ f.attrs.map (·.1) ∨ a ∈ g.attrs.map (·.1) ∨ a ∈ diffField e f g := by
    intro a ha
    rw [hattrs] at ha
    rcases keys_dUpdate hint f.attrs a ha with h | h
    · exact Or.inl h
    · right; right
      simp only [hint, List.map_map, List.mem_map] at h
      obtain ⟨b, hb, e1⟩ := h
      simp at e1; subst e1; exact hb
  have hall : ∀ a, a ∈ (changedField e f none hint).attrs.map (·.1) ++ g.attrs.map (·.1) →
      e.attrValue (changedField e f none hint) a = e.attrValue g a := by
    intro a ha
    rcases List.mem_append.mp ha with h | h
    · exact hval a (hkeys a h)
    · exact hval a (Or.inr (Or.inl h))
  constructor
  · rw [diffField_eq_nil]
    constructor
    · simp [extraKeys, hty, hrel]
    · unfold changedKeys
      rw [List.filter_eq_nil_iff]
      intro a ha; simp [hall a ha]
  · rw [diffField_eq_nil]
    constructor
    · simp [extraKeys, hty, hrel]
    · unfold changedKeys
      rw [List.filter_eq_nil_iff]
      intro a ha
      have : a ∈ (changedField e f none hint).attrs.map (·.1) ++ g.attrs.map (·.1) := by
        rcases List.mem_append.mp ha with h | h
        · exact List.mem_append_right _ h
        · exact List.mem_append_left _ h
      simp [hall a this]

theorem dGet_append_other {β} (d : List (String × β)) (k' k : String) (v : β) (h : (k' == k) = false) :
    dGet (d ++ [(k', v)]) k = dGet d k := by
  induction d with
  | nil => simp [dGet, h]
  | cons p r ih =>
    simp only [List.cons_append, dGet]
    split
    · rfl
    · exact ih

theorem dGet_append_new {β} (d : List (String × β)) (k : String) (v : β) (h : dGet d k = none) :
    dGet (d ++ [(k, v)]) k = some v := by
  induction d with
  | nil => simp [dGet]
  | cons p r ih =>
    simp only [List.cons_append, dGet] at h ⊢
    split at h
    · cases h
    · rename_i hk; simp only [hk]; exact ih h

theorem dDel_append_new {β} (d : List (String × β)) (k : String) (v : β) (h : dGet d k = none) :
    dDel (d ++ [(k, v)]) k = d := by
  induction d with
  | nil => simp [dDel]
  | cons p r ih =>
    simp only [dGet] at h
    split at h
    · cases h
    · rename_i hk
      have := ih h
      simp only [dDel, List.cons_append, List.filter_cons] at this ⊢
      simp [hk, this]

theorem noKey_popKey {β} (d : List (String × β)) (k : String) (h : dGet d k = none) :
    dDel d k = d := by
  induction d with
  | nil => rfl
  | cons p r ih =>
    simp only [dGet] at h
    split at h
    · cases h
    · rename_i hk
      have hk' : (p.1 == k) = false := by simpa using hk
      have := ih h
      unfold dDel at this ⊢
      simp [List.filter_cons, hk', this]

/-- closure: an added field — the hinted `AddField` (attributes of the new field, its relation
target as `related_model=`, an initial value when the column is not nullable) recreates exactly
the new field signature, for every model that does not have the field yet -/
theorem C05_closure_addField (g : FieldSig) (m : ModelSig) (init : Option Val)
    (hnew : m.getField g.name = none) (hnorel : dGet g.attrs "related_model" = none)
    (hrelnull : g.related ≠ some vNull)
    (hinit : isM2M g.ftype = true ∨ attrTruthy g.attrs "null" = true ∨ init.isSome = true) :
    simAddField g.name g.ftype init
      (match g.related with | some r => g.attrs ++ [("related_model", r)] | none => g.attrs) m
      = .ok (m.addField g) := by
  unfold simAddField
  simp only [hnew, Option.isSome_none, Bool.false_eq_true, if_false]
  cases hrel : g.related with
  | none =>
    simp only []
    have hni : (!isM2M g.ftype && !attrTruthy g.attrs "null" && init.isNone) = false := by
      rcases hinit with h | h | h
      · simp [h]
      · simp [h]
      · cases init <;> simp_all
    simp only [hni, Bool.false_eq_true, if_false, hnorel]
    have : popKey g.attrs "related_model" = g.attrs := noKey_popKey _ _ hnorel
    rw [this]
    congr 2
    cases g; simp_all
  | some r =>
    simp only []
    have hnull : attrTruthy (g.attrs ++ [("related_model", r)]) "null" = attrTruthy g.attrs "null" := by
      unfold attrTruthy
      rw [dGet_append_other _ _ _ _ (by decide)]
    have hni : (!isM2M g.ftype && !attrTruthy (g.attrs ++ [("related_model", r)]) "null" && init.isNone) = false := by
      rw [hnull]
      rcases hinit with h | h | h
      · simp [h]
      · simp [h]
      · cases init <;> simp_all
    have hrne : (r == vNull) = false := by
      have : r ≠ vNull := fun h => hrelnull (by rw [hrel, h])
      simpa using this
    simp only [hni, Bool.false_eq_true, if_false, dGet_append_new _ _ _ hnorel, hrne]
    unfold popKey
    rw [dDel_append_new _ _ _ hnorel]
    congr 2
    cases g; simp_all

/-! ## findings -/

def fkOld : FieldSig := ⟨"r", "ForeignKey", [], some "vapp.Al"⟩
def fkNew : FieldSig := ⟨"r", "ForeignKey", [], some "vapp.Beta"⟩

/-- F5: for a re-targeted relation the hinted `ChangeField(related_model='vapp.Beta')` stores the
value among the field attributes; the relation target stays what it was and the difference
remains. -/
theorem C05_cex_related_model :
    diffField sqliteEnv fkOld fkNew = ["related_model"] ∧
    (changedField sqliteEnv fkOld none [("related_model", "vapp.Beta")]).related = some "vapp.Al" ∧
    diffField sqliteEnv (changedField sqliteEnv fkOld none [("related_model", "vapp.Beta")]) fkNew
      = ["related_model", "related_model"] := by
  decide

/-- F6: `==` and `diff()` disagree — a default stated explicitly makes two signatures unequal
although their difference is empty in both directions. -/
theorem C05_cex_eq_vs_diff :
    let a : FieldSig := ⟨"r", "IntegerField", [], none⟩
    let b : FieldSig := ⟨"r", "IntegerField", [("null", "false")], none⟩
    diffField sqliteEnv a b = [] ∧ diffField sqliteEnv b a = [] ∧ eqField a b = false := by
  decide

/-- where they do agree: no attribute is stored with its default value, on either side
(`Canonical`), and the keys of each dictionary are unique — then an empty difference in both
directions is exactly `==` on fields -/
def Canonical (e : Env) (f : FieldSig) : Prop :=
  ∀ k v, dGet f.attrs k = some v → v ≠ e.attrDefault f.ftype k

/-- closure: a deleted field — the hinted `DeleteField` removes exactly that field; every other field
of the model is looked up as before (so no other difference appears or disappears) -/
theorem C05_closure_deleteField (e : Env) (m : ModelSig) (n : String) (f : FieldSig)
    (hf : m.getField n = some f) (hpk : truthy (e.attrValue f "primary_key") = false) :
    ∃ m', simDeleteField e n m = .ok m' ∧ m'.getField n = none ∧
      ∀ k, k ≠ n → m'.getField k = m.getField k := by
  unfold simDeleteField
  simp only [hf, hpk, Bool.false_eq_true, if_false]
  refine ⟨_, rfl, ?_, ?_⟩
  · unfold ModelSig.getField ModelSig.removeField
    simp only
    rw [List.find?_eq_none]
    intro x hx
    simp only [List.mem_filter, Bool.not_eq_true', beq_eq_false_iff_ne, ne_eq] at hx
    simpa using hx.2
  · intro k hk
    unfold ModelSig.getField ModelSig.removeField
    simp only
    induction m.fields with
    | nil => rfl
    | cons x xs ih =>
      by_cases hx : x.name = n
      · have hnk : (n == k) = false := by
          simp only [beq_eq_false_iff_ne, ne_eq]; intro h; exact hk h.symm
        simp [List.filter_cons, hx, List.find?_cons, hnk, ih]
      · have : (!(x.name == n)) = true := by simp [hx]
        simp only [List.filter_cons, this, if_true, List.find?_cons]
        split <;> simp_all

/-- **tie of the default lookup to the source**: `FieldSignature.get_attr_default` consults the field type's
own defaults before the generic ones — the order `Env.attrDefault` (and with it every diff / closure theorem
above) assumes.  Read from the source on every run (Generated/Tables.lean). -/
theorem C05_source_default_order : DEvo.Generated.attrDefaultTypeFirst = true := by decide

/-! ## Meta changes -/

/-- the ChangeMeta part of a model's hint, in the order `Diff.evolution()` emits it -/
def metasOf (name : String) (new : ModelSig) (mc : List String) : List Mutation :=
    (if mc.contains "constraints" then [Mutation.changeMeta name "constraints" (.sigs new.constraints)] else []) ++
    (if mc.contains "db_table_comment" then [Mutation.changeMeta name "db_table_comment" (.raw new.comment)] else []) ++
    (if mc.contains "indexes" then [Mutation.changeMeta name "indexes" (.sigs new.indexes)] else []) ++
    (if mc.contains "index_together" then [Mutation.changeMeta name "index_together" (.together new.indexTogether)] else []) ++
    (if mc.contains "unique_together" then [Mutation.changeMeta name "unique_together" (.together new.uniqueTogether)] else [])

theorem hintModel_ends_with_metas (e : Env) (new : ModelSig) (name : String) (d : ModelDiff) :
    ∃ pre, hintModel e new name d = pre ++ metasOf name new d.metaChanged := by
  unfold hintModel metasOf
  exact ⟨_, rfl⟩

/-- apply the ChangeMeta mutations of a list to one model, in order -/
def applyMetas (e : Env) : List Mutation → ModelSig → Except SimErr ModelSig
  | [], m => .ok m
  | .changeMeta _ prop v :: rest, m =>
    match simChangeMeta e prop v m with
    | .ok m' => applyMetas e rest m'
    | .error err => .error err
  | _ :: _, _ => .error .crash


/-- **the hinted Meta changes resolve the Meta difference**: for any two versions of a model, applying the
ChangeMeta mutations that `Diff.evolution()` proposes for their difference (every subset of the five tracked
properties, each with any value) to the old version leaves no Meta difference with the new one in either
direction, and does not touch the fields - on a backend that supports the properties that differ, for a target whose
`unique_together` counts as applied (every signature built from models) -/
theorem C05_closure_meta (e : Env) (name : String) (old new : ModelSig)
    (hsup : ∀ prop ∈ metaChangedOf old new, e.supportedMeta prop = true) (hut : new.utApplied = true) :
    ∃ m', applyMetas e (metasOf name new (metaChangedOf old new)) old = .ok m' ∧
      metaChangedOf m' new = [] ∧ metaChangedOf new m' = [] ∧ m'.fields = old.fields := by
  have h1 : (new.constraints != old.constraints) = true → e.supportedMeta "constraints" = true :=
    fun c => hsup _ (by simp [metaChangedOf, c])
  have h2 : (new.comment != old.comment) = true → e.supportedMeta "db_table_comment" = true :=
    fun c => hsup _ (by simp [metaChangedOf, c])
  have h3 : (new.indexes != old.indexes) = true → e.supportedMeta "indexes" = true :=
    fun c => hsup _ (by simp [metaChangedOf, c])
  have h4 : (new.indexTogether != old.indexTogether) = true → e.supportedMeta "index_together" = true :=
    fun c => hsup _ (by simp [metaChangedOf, c])
  have h5 : utChanged old new = true → e.supportedMeta "unique_together" = true :=
    fun c => hsup _ (by simp [metaChangedOf, c])
  have step : ∀ (prop : String) (v : MetaVal) (m : ModelSig) (rest : List Mutation),
      applyMetas e (Mutation.changeMeta name prop v :: rest) m =
        (match simChangeMeta e prop v m with | .ok m' => applyMetas e rest m' | .error err => .error err) := by
    intros; rfl
  have s1 : e.supportedMeta "constraints" = true →
      ∀ m v, simChangeMeta e "constraints" (.sigs v) m = .ok { m with constraints := v } := by
    intro h m v; simp [simChangeMeta, h]
  have s2 : e.supportedMeta "db_table_comment" = true →
      ∀ m v, simChangeMeta e "db_table_comment" (.raw v) m = .ok { m with comment := v } := by
    intro h m v; simp [simChangeMeta, h]
  have s3 : e.supportedMeta "indexes" = true →
      ∀ m v, simChangeMeta e "indexes" (.sigs v) m = .ok { m with indexes := v } := by
    intro h m v; simp [simChangeMeta, h]
  have s4 : e.supportedMeta "index_together" = true →
      ∀ m v, simChangeMeta e "index_together" (.together v) m = .ok { m with indexTogether := v } := by
    intro h m v; simp [simChangeMeta, h]
  have s5 : e.supportedMeta "unique_together" = true →
      ∀ m v, simChangeMeta e "unique_together" (.together v) m = .ok { m with uniqueTogether := v, utApplied := true } := by
    intro h m v; simp [simChangeMeta, h]
  clear hsup
  unfold metaChangedOf metasOf
  by_cases c1 : utChanged old new = true <;> by_cases c2 : (new.indexTogether != old.indexTogether) = true <;>
    by_cases c3 : (new.indexes != old.indexes) = true <;> by_cases c4 : (new.constraints != old.constraints) = true <;>
    by_cases c5 : (new.comment != old.comment) = true
  all_goals
    simp [c1, c2, c3, c4, c5] at h1 h2 h3 h4 h5
  all_goals
    simp [c1, c2, c3, c4, c5, step, applyMetas, h1, h2, h3, h4, h5, s1, s2, s3, s4, s5]
  all_goals (simp_all [utChanged])

/-! ## stored values are read as stored -/

/-- **an attribute that is stored is read as stored** - whatever the value: `0`, `False`, the empty string and `None`
are values like any other, the default is only for attributes that are absent -/
theorem C05_attr_value_is_stored (e : Env) (f : FieldSig) (a : String) (v : Val) (h : dGet f.attrs a = some v) :
    e.attrValue f a = v := by
  unfold Env.attrValue
  rw [h]

/-- `FieldSignature.get_attr_value` of the current source goes by the presence of the key (read by the translator on
every run) -/
theorem C05_source_attr_value_by_presence : DEvo.Generated.attrValueByPresence = true := by decide

/-- `C05_self` speaks about a signature and ITSELF; the code diffs a signature with its `clone()`.  The
model's clone is the identity, and the source's clone is a copy of every constructor attribute of every
signature class - none is left to its default (read by the translator on every run) -/
theorem C05_source_clone_passes_every_attribute : DEvo.Generated.cloneOmits = [] := by decide

end DEvo.Props.C05
