import DEvo.Mut.Env
import DEvo.Run.Monitors
import DEvo.Generated.Skeletons
import DEvo.Generated.Tables
import DEvo.Sig.Diff

/-! # C12 — upgrades that cannot reach the current models never touch the database

Two layers: (1) the gate of the `evolve` command, proved over the control skeletons that the
translator regenerates from `management/commands/evolve.py` on every run; (2) the
preconditions of `simulate`, proved for every signature. -/

namespace DEvo.Props.C12
open DEvo.Sig DEvo.Mut DEvo.Skel

/-! ## the command-level gate (over generated skeletons) -/

/-- **In every execution of `Command.handle` — whatever the options, whichever call fails —
`_perform_evolution` (the only path to `Evolver.evolve()`, i.e. to any write) is entered only
after `_check_simulation` returned normally.** -/
theorem C12_gate_handle :
    ∀ tr o, Exec Generated.commandHandle tr o →
      ∀ pre post, tr = pre ++ Event.call "_perform_evolution" :: post →
        Event.ret "_check_simulation" ∈ pre := by
  intro tr o hex
  exact domMon_meaning _ _ tr
    (dominates_sound "_check_simulation" "_perform_evolution" Generated.commandHandle (by decide) tr o hex)

/-- the evolver (and with it the simulation of all pending evolutions in `evolver.tasks`) is
built before the check -/
theorem C12_gate_evolver_first :
    ∀ tr o, Exec Generated.commandHandle tr o →
      ∀ pre post, tr = pre ++ Event.call "_check_simulation" :: post → Event.ret "Evolver" ∈ pre := by
  intro tr o hex
  exact domMon_meaning _ _ tr
    (dominates_sound "Evolver" "_check_simulation" Generated.commandHandle (by decide) tr o hex)

/-- wherever `Command.handle` itself calls `evolver.evolve` (since fix: commit for finding F53 it does, to record
evolutions that need no SQL), the call too comes only after `_check_simulation` returned normally -/
theorem C12_gate_direct_evolve :
    ∀ tr o, Exec Generated.commandHandle tr o →
      ∀ pre post, tr = pre ++ Event.call "evolver.evolve" :: post →
        Event.ret "_check_simulation" ∈ pre := by
  intro tr o hex
  exact domMon_meaning _ _ tr
    (dominates_sound "_check_simulation" "evolver.evolve" Generated.commandHandle (by decide) tr o hex)

/-- monitor state of `_check_simulation`: did the run pass one of the two accepting branches? -/
inductive Chk where
  | none | cannotSimulate | diffEmpty
  deriving DecidableEq, Repr

def chkStep (st : Chk) (ev : Event) : Chk :=
  match st, ev with
  | .none, .branch c true =>
    if hasSub "can_simulate" c then .cannotSimulate
    else if hasSub "is_empty" c then .diffEmpty else .none
  | st, _ => st

/-- the guard of `C12_pre_delete_primary_key` in the source: the field's own `primary_key` attribute,
whatever its type and column (read by the translator on every run) -/
theorem C12_source_pk_guard :
    DEvo.Generated.deleteFieldPkGuard = "field_sig.get_attr_value('primary_key')" := by decide

/-- **`_check_simulation` returns normally only when the residual difference is empty, or when
the evolutions cannot be simulated at all (the documented raw-SQL bypass); in every other
execution it raises** — so by `C12_gate_handle` a residual difference stops the command before
`_perform_evolution`. -/
theorem C12_check_simulation :
    ∀ tr o, Exec Generated.commandCheckSimulation tr o →
      (o = .raised ∨ (o = .returned ∧ (Mon.run ⟨chkStep⟩ Chk.none tr = .diffEmpty ∨
                                         Mon.run ⟨chkStep⟩ Chk.none tr = .cannotSimulate))) := by
  intro tr o hex
  have := reach_all ⟨chkStep⟩ 8 Generated.commandCheckSimulation Chk.none
    (fun o st => match o with
      | .raised => true
      | .returned => st == .diffEmpty || st == .cannotSimulate
      | .normal => false) (by decide) tr o hex
  cases o with
  | raised => exact Or.inl rfl
  | returned =>
    right; refine ⟨rfl, ?_⟩
    simp only [Bool.or_eq_true, beq_iff_eq] at this
    exact this
  | normal => simp at this

/-! ## preconditions of `simulate` (every signature, every model) -/

theorem C12_pre_add_existing (field ftype : String) (initial : Option Val) (attrs : List (String × Val))
    (m : ModelSig) (f : FieldSig) (h : m.getField field = some f) :
    simAddField field ftype initial attrs m = .error .fieldExists := by
  unfold simAddField; simp [h]

theorem C12_pre_add_nonnull_needs_initial (field ftype : String) (attrs : List (String × Val))
    (m : ModelSig) (hnew : m.getField field = none) (hm2m : isM2M ftype = false)
    (hnull : attrTruthy attrs "null" = false) :
    simAddField field ftype none attrs m = .error .needInitial := by
  unfold simAddField; simp [hnew, hm2m, hnull]

theorem C12_pre_change_missing_field (e : Env) (field : String) (ftype : Option String)
    (initial : Option Val) (attrs : List (String × Val)) (m : ModelSig) (h : m.getField field = none) :
    simChangeField e field ftype initial attrs m = .error .fieldNotFound := by
  unfold simChangeField; simp [h]

theorem C12_pre_change_nonnull_needs_initial (e : Env) (field : String) (attrs : List (String × Val))
    (m : ModelSig) (f : FieldSig) (h : m.getField field = some f) (v : Val)
    (hnull : dGet attrs "null" = some v) (hv : truthy v = false) (hm2m : isM2M f.ftype = false) :
    simChangeField e field none none attrs m = .error .needInitial := by
  unfold simChangeField
  simp only [h]
  have : changeNeedsInitial (changedField e f none attrs).ftype none attrs = true := by
    simp [changeNeedsInitial, hnull, hv, changedField, hm2m]
  simp [this]

theorem C12_pre_delete_missing_field (e : Env) (field : String) (m : ModelSig)
    (h : m.getField field = none) : simDeleteField e field m = .error .fieldNotFound := by
  unfold simDeleteField; simp [h]

theorem C12_pre_delete_primary_key (e : Env) (field : String) (m : ModelSig) (f : FieldSig)
    (h : m.getField field = some f) (hpk : truthy (e.attrValue f "primary_key") = true) :
    simDeleteField e field m = .error .pkDelete := by
  unfold simDeleteField; simp [h, hpk]

theorem C12_pre_rename_missing_field (old new : String) (c t : Option String) (m : ModelSig)
    (h : m.getField old = none) : simRenameField old new c t m = .error .fieldNotFound := by
  unfold simRenameField; simp [h]

/-- a model-level mutation naming a missing model, or any mutation for a missing app, is
rejected before the signature is touched -/
theorem C12_pre_missing_model (e : Env) (fl : Flags) (c : Ctx) (p : ProjectSig) (a : AppSig)
    (mu : Mutation) (model : String) (f : ModelSig → Except SimErr ModelSig)
    (hloc : simModelLocal e mu = some (model, f)) (happ : getAppSig c p = .ok a)
    (hmiss : a.getModel model = none) : simulate e fl c mu p = .error .modelNotFound := by
  unfold simulate
  simp only [hloc]
  unfold getModelSig
  simp [happ, hmiss, bind, Except.bind]

theorem C12_pre_missing_app (e : Env) (fl : Flags) (c : Ctx) (p : ProjectSig)
    (mu : Mutation) (model : String) (f : ModelSig → Except SimErr ModelSig)
    (hloc : simModelLocal e mu = some (model, f)) (happ : getAppSig c p = .error .appNotFound) :
    simulate e fl c mu p = .error .appNotFound := by
  unfold simulate
  simp only [hloc]
  unfold getModelSig
  simp [happ, bind, Except.bind]

/-- a rejected prefix rejects the whole sequence (no later mutation can "repair" it) -/
theorem C12_reject_prefix (e : Env) (fl : Flags) (c : Ctx) (mu : Mutation) (rest : List Mutation)
    (p : ProjectSig) (err : SimErr) (h : simulate e fl c mu p = .error err) :
    simulateAll e fl c (mu :: rest) p = .error err := by
  simp [simulateAll, h, bind, Except.bind]

/-! ## the residual check looks in the right direction -/

/-- `Evolver.diff_evolutions()` returns `Diff(self.project_sig, self.target_project_sig)`: the
simulated signature is the side whose models are walked (regenerated from the source on every run) -/
theorem C12_source_diff_direction :
    DEvo.Generated.diffEvolutionsArgs = ("self.project_sig", "self.target_project_sig") := by decide

/-- **a model that the simulated signature still has and the current models do not** (the evolution
lacks its `DeleteModel`) **makes the residual difference non-empty**, whatever else the evolution
does — so the gate rejects -/
theorem C12_residual_reports_leftover_model (e : Env) (sim target : ProjectSig) (a b : AppSig) (m : String)
    (ha : a ∈ sim.apps) (hb : target.getApp a.id = some b) (hnm : (b.upgradeMethod == some "migrations") = false)
    (hm : m ∈ deletedModelsOf a b) : (diffProject e sim target).isEmpty true = false := by
  have hne : (diffApp e a b).isEmpty = false := by
    unfold diffApp AppDiff.isEmpty
    simp only [hnm]
    cases hd : deletedModelsOf a b with
    | nil => rw [hd] at hm; cases hm
    | cons x t => simp
  have hmem : (b.id, diffApp e a b) ∈ changedAppsOf e sim target := by
    unfold changedAppsOf
    rw [List.mem_filterMap]
    exact ⟨a, ha, by simp [hb, hne]⟩
  unfold diffProject ProjDiff.isEmpty
  simp only [if_true]
  cases hc : changedAppsOf e sim target with
  | nil => rw [hc] at hmem; cases hmem
  | cons x t => rfl

def simLeft : ProjectSig :=
  { apps := [⟨"a", "a", some "evolutions", none,
      [{ name := "Book", table := "a_book", pkColumn := "\"id\"", fields := [⟨"id", "AutoField", [("primary_key", "true")], none⟩],
         uniqueTogether := [], utApplied := true, indexTogether := [], indexes := [], constraints := [],
         comment := "null", tablespace := "null" },
       { name := "Author", table := "a_author", pkColumn := "\"id\"", fields := [⟨"id", "AutoField", [("primary_key", "true")], none⟩],
         uniqueTogether := [], utApplied := true, indexTogether := [], indexes := [], constraints := [],
         comment := "null", tablespace := "null" }]⟩] }

def targetLeft : ProjectSig :=
  { apps := [⟨"a", "a", some "evolutions", none,
      [{ name := "Book", table := "a_book", pkColumn := "\"id\"", fields := [⟨"id", "AutoField", [("primary_key", "true")], none⟩],
         uniqueTogether := [], utApplied := true, indexTogether := [], indexes := [], constraints := [],
         comment := "null", tablespace := "null" }]⟩] }

/-- the difference is one-directional: with the arguments swapped the leftover model `Author` is not
seen (the mechanism of the seeded change C12-diff-evolutions-swapped) -/
theorem C12_cex_swapped_direction :
    (diffProject sqliteEnv simLeft targetLeft).isEmpty true = false ∧
    (diffProject sqliteEnv targetLeft simLeft).isEmpty true = true := by decide

/-! ## `Diff.is_empty`: what the gate finally asks -/

/-- `Diff.is_empty(ignore_apps)` over the two parts of a difference (`changed`, `deleted`), as the source states it -/
def diffIsEmpty (ignoreApps : Bool) (changedEmpty deletedEmpty : Bool) : Bool :=
  if ignoreApps then changedEmpty else deletedEmpty && changedEmpty

/-- **a residual change is never "empty"**, with or without `--purge` (`ignore_apps` false or true): whatever the
`deleted` part looks like, a non-empty `changed` part makes the gate refuse -/
theorem C12_residual_change_never_empty (ignoreApps deletedEmpty : Bool) :
    diffIsEmpty ignoreApps false deletedEmpty = false := by
  cases ignoreApps <;> cases deletedEmpty <;> rfl

/-- the source's `is_empty` is this function (read by the translator on every run) -/
theorem C12_source_is_empty : DEvo.Generated.diffIsEmpty = "and" := by decide

/-- the De Morgan slip `not (deleted and changed)`: with nothing deleted everything counts as empty -/
theorem C12_cex_de_morgan :
    (fun (changedEmpty deletedEmpty : Bool) => !(!deletedEmpty && !changedEmpty)) false true = true := by decide

/-- the gate judges the sequence the optimiser hands on; a duplicated mutation reaches it only if the
optimiser's set of removed mutations goes by identity (`C03_filter_by_identity`), which is what the
source says (read by the translator on every run) -/
theorem C12_source_hash_identity : DEvo.Generated.mutationHashById = true := by decide

end DEvo.Props.C12
