import DEvo.Run.Tx
import DEvo.Run.Batches
import DEvo.Generated.Tables

/-! # C07 — a failed upgrade leaves the database as it was and can be retried -/

namespace DEvo.Props.C07
open DEvo.Run DEvo.Skel

/-- an uninterrupted batch applies all of its statements -/
theorem C07_success (b : Bool) (stmts db : List String) :
    runBatch b stmts none db = (db ++ stmts, .ok) := by
  simp [runBatch, execStmts_ok_all]

/-- **atomicity, every batch, every crash point**: when the atomic block is left with the
exception (rollback on failure), a failure at *any* statement index `k` of *any* batch leaves the
database exactly as it was, and the error carries the index of the failing statement -/
theorem C07_atomic (stmts db : List String) (k : Nat) (h : k < stmts.length) :
    runBatch false stmts (some k) db = (db, .failed k) := by
  have := execStmts_fail stmts k 0 [] h
  simp only [Nat.zero_add, List.nil_append] at this
  simp [runBatch, this]

/-- **retry**: after such a failure a fault-free run gives the result of an uninterrupted run -/
theorem C07_retry (stmts db : List String) (k : Nat) (h : k < stmts.length) :
    runBatch false stmts none (runBatch false stmts (some k) db).1 = runBatch false stmts none db := by
  rw [C07_atomic stmts db k h]

/-- F9: when the block is left as if nothing had failed, the executed prefix is committed -/
theorem C07_commit_on_failure (stmts db : List String) (k : Nat) (h : k < stmts.length) :
    runBatch true stmts (some k) db = (db ++ stmts.take k, .failed k) := by
  have := execStmts_fail stmts k 0 [] h
  simp only [Nat.zero_add, List.nil_append] at this
  simp [runBatch, this]

/-- the witness observed on the real code: the first statement of a rebuild persists -/
theorem C07_cex_commit_on_failure :
    runBatch true ["CREATE TABLE TEMP_TABLE", "INSERT INTO TEMP_TABLE", "DROP TABLE t"] (some 1) [] =
      (["CREATE TABLE TEMP_TABLE"], .failed 1) := by decide

/-! ## the evolver: nothing is recorded unless every task ran (over the generated skeleton) -/

inductive Save where
  | clean | taskFailed | bad
  deriving DecidableEq, Repr

/-- "after a task's execution raised, `_save_project_sig` is never called" -/
def saveStep (st : Save) (ev : Event) : Save :=
  match st, ev with
  | .clean, .raised n => if hasSub "execute_tasks" n then .taskFailed else .clean
  | .taskFailed, .call n => if n == "_save_project_sig" then .bad else .taskFailed
  | st, _ => st

/-- **in every execution of `Evolver.evolve`, for every number of task classes and a fault in
any call, the version/evolution records are written only if no task execution failed** -/
theorem C07_no_record_after_failure :
    ∀ tr o, Exec Generated.evolverEvolve tr o → Mon.run ⟨saveStep⟩ Save.clean tr ≠ .bad := by
  intro tr o hex
  have := reach_all ⟨saveStep⟩ 8 Generated.evolverEvolve Save.clean (fun _ st => st != .bad) (by decide) tr o hex
  simpa using this

inductive SaveLast where
  | clean | saved | bad
  deriving DecidableEq, Repr

/-- "once `_save_project_sig` was called, no task class is executed any more" -/
def saveLastStep (st : SaveLast) (ev : Event) : SaveLast :=
  match st, ev with
  | .clean, .call n => if n == "_save_project_sig" then .saved else .clean
  | .saved, .call n => if hasSub "execute_tasks" n then .bad else .saved
  | st, _ => st

/-- **the records are written after the last task class**: in every execution of `Evolver.evolve`, for every number
of task classes, nothing is executed once the version and the evolution rows were written - so a failure in ANY
task class (the evolutions, a purge) finds the stored signature and the recorded evolutions as they were -/
theorem C07_records_written_last :
    ∀ tr o, Exec Generated.evolverEvolve tr o → Mon.run ⟨saveLastStep⟩ SaveLast.clean tr ≠ .bad := by
  intro tr o hex
  have := reach_all ⟨saveLastStep⟩ 8 Generated.evolverEvolve SaveLast.clean (fun _ st => st != .bad) (by decide) tr o hex
  simpa using this

/-- a failing task makes the run raise (the exception is re-raised after `evolving_failed`) -/
theorem C07_failure_propagates :
    ∀ tr o, Exec Generated.evolverEvolve tr o →
      Mon.run ⟨saveStep⟩ Save.clean tr = .taskFailed → o = .raised := by
  intro tr o hex hst
  have := reach_all ⟨saveStep⟩ 8 Generated.evolverEvolve Save.clean
    (fun o st => !(st == .taskFailed) || o == .raised) (by decide) tr o hex
  simp only [hst, beq_self_eq_true, Bool.not_true, Bool.false_or, beq_iff_eq] at this
  exact this

/-- calls that end (commit) or restart the executor's transaction -/
def txEnd (n : String) : Bool :=
  hasSub "finish_transaction" n || hasSub "new_transaction" n || hasSub "commit" n

def txMon : Mon Bool := ⟨fun st e => st || (match e with | .call n => txEnd n | _ => false)⟩

set_option maxRecDepth 16384 in
/-- **the code that runs inside one `with sql_executor` block — model creation, a task's evolution
SQL, a purge, the batch loop — never ends the executor's transaction itself**, on any path
including the exceptional ones: committing is left to `SQLExecutor.__exit__`, which sees the
exception (C07_atomic then applies to the whole block).  Re-checked on the regenerated
skeletons on every run. -/
theorem C07_no_transaction_end_inside_tasks :
    ∀ s ∈ [Generated.taskCreateModels, Generated.taskExecute, Generated.purgeExecute, Generated.taskExecuteTasks],
      ∀ tr o, Exec s tr o → Mon.run txMon false tr = false := by
  intro s hs tr o hex
  have key : checkAll txMon 8 s false (fun _ st => !st) = true := by
    simp only [List.mem_cons, List.not_mem_nil, or_false] at hs
    rcases hs with h | h | h | h <;> subst h <;> decide
  have := reach_all txMon 8 s false (fun _ st => !st) key tr o hex
  simpa using this

/-! ## batching: which statements share a transaction (`_prepare_sql`, `_prepare_transaction_batches`) -/

/-- batching loses, duplicates and reorders nothing, whatever the groups look like -/
theorem C07_batches_keep_statements (yl : Bool) (gs : List Group) :
    (cut yl (prepare gs)).flatMap (·.1) = prepare gs := by
  simpa [cut] using cutLoop_flatten yl (prepare gs) [] none

/-- **every batch is handed to `run_sql` with the flag of its own statements**: a statement that
`_prepare_sql` marked "inside a transaction" is never executed in a batch that runs without one
(and the other way round), for every list of statement groups -/
theorem C07_batch_flag_is_its_statements_flag (gs : List Group) :
    ∀ bf ∈ cut true (prepare gs), ∀ q ∈ bf.1, some q.useTx = bf.2 := by
  intro bf hbf q hq
  exact cutLoop_flags (prepare gs) [] none (by simp) bf hbf q hq

/-- only the first statement of a batch may be the start of a `NewTransactionSQL` group -/
theorem C07_new_transaction_starts_a_batch (yl : Bool) (gs : List Group) :
    ∀ bf ∈ cut yl (prepare gs), ∀ q ∈ bf.1.tail, q.newTx = false := by
  intro bf hbf q hq
  exact cutLoop_newTx_first yl (prepare gs) [] none (by simp) bf hbf q hq

/-- **atomicity through the batching**: an evolution made of ordinary statements only is ONE batch
inside a transaction, so (C07_atomic) a failure at any of its statements leaves the database as it was -/
theorem C07_ordinary_evolution_is_atomic (p : Prep) (ps : List Prep) (db : List String) (k : Nat)
    (h : ∀ q ∈ p :: ps, q.useTx = true ∧ q.newTx = false) (hk : k < (p :: ps).length) :
    cut true (p :: ps) = [(p :: ps, some true)] ∧
      runBatch false ((p :: ps).map (·.stmt)) (some k) db = (db, .failed k) :=
  ⟨cut_ordinary p ps h, C07_atomic _ db k (by simpa using hk)⟩

/-- the ordinary statements that PRECEDE a statement which must run outside a transaction are still
one batch inside a transaction -/
theorem C07_statements_before_no_transaction_group (p : Prep) (ps : List Prep) (v : Prep) (rest : List Prep)
    (h : ∀ q ∈ p :: ps, q.useTx = true ∧ q.newTx = false) (hv : v.useTx = false) :
    (cut true ((p :: ps) ++ v :: rest)).head? = some (p :: ps, some true) := by
  have hp := h p (by simp)
  have key : ∀ (qs batch : List Prep), (∀ q ∈ qs, q.useTx = true ∧ q.newTx = false) → batch ≠ [] →
      (cutLoop true (qs ++ v :: rest) batch (some true)).head? = some (batch ++ qs, some true) := by
    intro qs
    induction qs with
    | nil =>
      intro batch _ hb
      cases batch with
      | nil => exact absurd rfl hb
      | cons b bs => simp [cutLoop, hv]
    | cons q qs ih =>
      intro batch hq hb
      have h1 := hq q (by simp)
      simp only [List.cons_append, cutLoop, h1.1, h1.2, Bool.false_or, bne_self_eq_false, Bool.false_eq_true,
        if_false]
      rw [ih (batch ++ [q]) (fun x hx => hq x (by simp [hx])) (by simp)]
      simp
  have := key ps [p] (fun q hq => h q (by simp [hq])) (by simp)
  simpa [cut, cutLoop, hp.1, hp.2] using this

/-- the flags `prepareGroup` gives the statements of a group are the ones `_prepare_sql` assigns: outside
a transaction for `NoTransactionSQL`, a new transaction for `NewTransactionSQL` - cleared again after
the FIRST statement that is handed on -, inside the current one otherwise (read by the translator on
every run) -/
theorem C07_source_prepare_sql_flags : DEvo.Generated.prepareSqlFlags =
    ["new_transaction = False",
     "[isinstance(statements, NoTransactionSQL)] use_transaction = False",
     "[isinstance(statements, NewTransactionSQL)] new_transaction = True",
     "[isinstance(statements, NewTransactionSQL)] use_transaction = True",
     "[not isinstance(statements, NewTransactionSQL)] use_transaction = True",
     "new_transaction = False (after yield)"] := by decide

/-- **a `NewTransactionSQL` group is ONE batch**: its statements are cut off from what precedes them and
stay together (only the first asks for the new transaction) -/
theorem C07_new_transaction_group_is_one_batch (s : String) (r : List String)
    (hs : keepStmt s = true) (hr : ∀ t ∈ r, keepStmt t = true) (batch : List Prep) (last : Option Bool) :
    cutLoop true (prepareGroup (.newTx (s :: r))) batch last =
      (if batch.isEmpty then [] else [(batch, last)]) ++
        [(⟨s, true, true⟩ :: r.map (fun t => ⟨t, true, false⟩), some true)] := by
  have hf : (s :: r).filter keepStmt = s :: r := by
    simp only [List.filter_eq_self]
    intro t ht
    rcases List.mem_cons.mp ht with h | h
    · subst h; exact hs
    · exact hr t h
  simp only [prepareGroup, hf]
  unfold cutLoop
  simp only [Bool.true_or, if_true]
  have := cutLoop_ordinary (r.map (fun t => (⟨t, true, false⟩ : Prep))) [⟨s, true, true⟩]
    (by intro q hq; simp at hq; obtain ⟨t, _, rfl⟩ := hq; simp) (by simp)
  rw [this]
  simp

/-- the source yields every batch with its own flag (read by the translator on every run) -/
theorem C07_source_batch_flag : DEvo.Generated.batchYieldsOwnFlag = true := by decide

/-- with the flag of the statement that starts the NEXT batch yielded instead, the rebuild that
precedes a `VACUUM` is executed without a transaction -/
theorem C07_cex_next_batch_flag :
    cut false (prepare [.plain ["CREATE TABLE TEMP_TABLE", "DROP TABLE t"], .noTx ["VACUUM;"]]) =
      [([⟨"CREATE TABLE TEMP_TABLE", true, false⟩, ⟨"DROP TABLE t", true, false⟩], some false),
       ([⟨"VACUUM;", false, false⟩], some false)] := by decide

/-- the same input with the source's rule (non-vacuity of the theorems above: three kinds of groups,
a comment and an empty statement dropped) -/
example :
    cut true (prepare [.plain ["CREATE TABLE TEMP_TABLE", "-- note", "DROP TABLE t"], .noTx ["VACUUM;"],
                       .newTx ["", "PRAGMA x;", "UPDATE y;"], .plain ["SELECT 1;"]]) =
      [([⟨"CREATE TABLE TEMP_TABLE", true, false⟩, ⟨"DROP TABLE t", true, false⟩], some true),
       ([⟨"VACUUM;", false, false⟩], some false),
       ([⟨"PRAGMA x;", true, true⟩, ⟨"UPDATE y;", true, false⟩, ⟨"SELECT 1;", true, false⟩], some true)] := by decide

end DEvo.Props.C07
