import DEvo.Run.Tx

/-! # C07 — a failed upgrade leaves the database as it was and can be retried -/

namespace DEvo.Props.C07
open DEvo.Run DEvo.Skel

/-- an uninterrupted batch applies all of its statements -/
theorem C07_success (b : Bool) (stmts db : List String) :
    runBatch b stmts none db = (db ++ stmts, .ok) := by
  simp [runBatch, execStmts_ok_all]

/-- **atomicity, every batch, every crash point**: when the atomic block is left with the
exception (rollback on failure), a failure at *any* statement index `k` of *any* batch leaves the
database exactly as it was, and the error carries the index of the failing statement -/
theorem C07_atomic (stmts db : List String) (k : Nat) (h : k < stmts.length) :
    runBatch false stmts (some k) db = (db, .failed k) := by
  have := execStmts_fail stmts k 0 [] h
  simp only [Nat.zero_add, List.nil_append] at this
  simp [runBatch, this]

/-- **retry**: after such a failure a fault-free run gives the result of an uninterrupted run -/
theorem C07_retry (stmts db : List String) (k : Nat) (h : k < stmts.length) :
    runBatch false stmts none (runBatch false stmts (some k) db).1 = runBatch false stmts none db := by
  rw [C07_atomic stmts db k h]

/-- F9: when the block is left as if nothing had failed, the executed prefix is committed -/
theorem C07_commit_on_failure (stmts db : List String) (k : Nat) (h : k < stmts.length) :
    runBatch true stmts (some k) db = (db ++ stmts.take k, .failed k) := by
  have := execStmts_fail stmts k 0 [] h
  simp only [Nat.zero_add, List.nil_append] at this
  simp [runBatch, this]

/-- the witness observed on the real code: the first statement of a rebuild persists -/
theorem C07_cex_commit_on_failure :
    runBatch true ["CREATE TABLE TEMP_TABLE", "INSERT INTO TEMP_TABLE", "DROP TABLE t"] (some 1) [] =
      (["CREATE TABLE TEMP_TABLE"], .failed 1) := by decide

/-! ## the evolver: nothing is recorded unless every task ran (over the generated skeleton) -/

inductive Save where
  | clean | taskFailed | bad
  deriving DecidableEq, Repr

/-- "after a task's execution raised, `_save_project_sig` is never called" -/
def saveStep (st : Save) (ev : Event) : Save :=
  match st, ev with
  | .clean, .raised n => if hasSub "execute_tasks" n then .taskFailed else .clean
  | .taskFailed, .call n => if n == "_save_project_sig" then .bad else .taskFailed
  | st, _ => st

/-- **in every execution of `Evolver.evolve`, for every number of task classes and a fault in
any call, the version/evolution records are written only if no task execution failed** -/
theorem C07_no_record_after_failure :
    ∀ tr o, Exec Generated.evolverEvolve tr o → Mon.run ⟨saveStep⟩ Save.clean tr ≠ .bad := by
  intro tr o hex
  have := reach_all ⟨saveStep⟩ 8 Generated.evolverEvolve Save.clean (fun _ st => st != .bad) (by decide) tr o hex
  simpa using this

inductive SaveLast where
  | clean | saved | bad
  deriving DecidableEq, Repr

/-- "once `_save_project_sig` was called, no task class is executed any more" -/
def saveLastStep (st : SaveLast) (ev : Event) : SaveLast :=
  match st, ev with
  | .clean, .call n => if n == "_save_project_sig" then .saved else .clean
  | .saved, .call n => if hasSub "execute_tasks" n then .bad else .saved
  | st, _ => st

/-- **the records are written after the last task class**: in every execution of `Evolver.evolve`, for every number
of task classes, nothing is executed once the version and the evolution rows were written - so a failure in ANY
task class (the evolutions, a purge) finds the stored signature and the recorded evolutions as they were -/
theorem C07_records_written_last :
    ∀ tr o, Exec Generated.evolverEvolve tr o → Mon.run ⟨saveLastStep⟩ SaveLast.clean tr ≠ .bad := by
  intro tr o hex
  have := reach_all ⟨saveLastStep⟩ 8 Generated.evolverEvolve SaveLast.clean (fun _ st => st != .bad) (by decide) tr o hex
  simpa using this

/-- a failing task makes the run raise (the exception is re-raised after `evolving_failed`) -/
theorem C07_failure_propagates :
    ∀ tr o, Exec Generated.evolverEvolve tr o →
      Mon.run ⟨saveStep⟩ Save.clean tr = .taskFailed → o = .raised := by
  intro tr o hex hst
  have := reach_all ⟨saveStep⟩ 8 Generated.evolverEvolve Save.clean
    (fun o st => !(st == .taskFailed) || o == .raised) (by decide) tr o hex
  simp only [hst, beq_self_eq_true, Bool.not_true, Bool.false_or, beq_iff_eq] at this
  exact this

/-- calls that end (commit) or restart the executor's transaction -/
def txEnd (n : String) : Bool :=
  hasSub "finish_transaction" n || hasSub "new_transaction" n || hasSub "commit" n

def txMon : Mon Bool := ⟨fun st e => st || (match e with | .call n => txEnd n | _ => false)⟩

set_option maxRecDepth 16384 in
/-- **the code that runs inside one `with sql_executor` block — model creation, a task's evolution
SQL, a purge, the batch loop — never ends the executor's transaction itself**, on any path
including the exceptional ones: committing is left to `SQLExecutor.__exit__`, which sees the
exception (C07_atomic then applies to the whole block).  Re-checked on the regenerated
skeletons on every run. -/
theorem C07_no_transaction_end_inside_tasks :
    ∀ s ∈ [Generated.taskCreateModels, Generated.taskExecute, Generated.purgeExecute, Generated.taskExecuteTasks],
      ∀ tr o, Exec s tr o → Mon.run txMon false tr = false := by
  intro s hs tr o hex
  have key : checkAll txMon 8 s false (fun _ st => !st) = true := by
    simp only [List.mem_cons, List.not_mem_nil, or_false] at hs
    rcases hs with h | h | h | h <;> subst h <;> decide
  have := reach_all txMon 8 s false (fun _ st => !st) key tr o hex
  simpa using this

end DEvo.Props.C07
