import DEvo.Run.History
import DEvo.Run.Monitors
import DEvo.Generated.Tables
import DEvo.Generated.Skeletons

/-! # C08 — each evolution is applied and recorded exactly once -/

namespace DEvo.Props.C08
open DEvo.Run

/-- no label of an app is recorded twice -/
def Once (s : HState) : Prop := (keys s).Nodup

/-- an app without a stored signature has no recorded evolutions (violated only by
`mark-evolution-applied` on an app that was never evolved — see `C08_cex_mark_then_install`) -/
def FreshClean (s : HState) : Prop := ∀ r ∈ s.recorded, s.known.contains r.app = true

/-- well-formed run: distinct apps, duplicate-free sequences -/
def RunWF (apps : List AppCfg) : Prop :=
  (apps.map (·.label)).Nodup ∧ ∀ a ∈ apps, a.sequence.Nodup

theorem isRecorded_iff (s : HState) (app label : String) :
    isRecorded s app label = true ↔ (app, label) ∈ keys s := by
  unfold isRecorded keys
  simp only [List.any_eq_true, Bool.and_eq_true, beq_iff_eq, List.mem_map]
  constructor
  · rintro ⟨r, hr, h1, h2⟩; exact ⟨r, hr, by rw [h1, h2]⟩
  · rintro ⟨r, hr, h⟩; injection h with h1 h2; exact ⟨r, hr, h1, h2⟩

/-- the labels a task plans to record are not yet recorded and pairwise distinct -/
theorem taskPlan_fresh (s : HState) (a : AppCfg) (hseq : a.sequence.Nodup) (hclean : FreshClean s) :
    (taskPlan s a).1.Nodup ∧ ∀ l ∈ (taskPlan s a).1, (a.label, l) ∉ keys s := by
  unfold taskPlan
  split
  · refine ⟨hseq.filter _, ?_⟩
    intro l hl hmem
    simp only [unapplied, List.mem_filter, Bool.not_eq_true'] at hl
    have := (isRecorded_iff s a.label l).mpr hmem
    rw [this] at hl; exact absurd hl.2 (by simp)
  · rename_i hk
    refine ⟨hseq, ?_⟩
    intro l _ hmem
    unfold keys at hmem
    simp only [List.mem_map] at hmem
    obtain ⟨r, hr, e⟩ := hmem
    injection e with e1 _
    have := hclean r hr
    rw [e1] at this
    exact hk this

theorem newRecords_keys_nodup (s : HState) : ∀ (apps : List AppCfg), RunWF apps → FreshClean s →
    ((newRecords s apps).map (fun r => (r.app, r.label))).Nodup ∧
    (∀ k ∈ (newRecords s apps).map (fun r => (r.app, r.label)), k ∉ keys s ∧ k.1 ∈ apps.map (·.label)) := by
  intro apps
  induction apps with
  | nil => intro _ _; simp [newRecords]
  | cons a rest ih =>
    intro hwf hclean
    obtain ⟨hnd, hseq⟩ := hwf
    simp only [List.map_cons, List.nodup_cons] at hnd
    have ihr := ih ⟨hnd.2, fun b hb => hseq b (List.mem_cons_of_mem _ hb)⟩ hclean
    obtain ⟨pn, pf⟩ := taskPlan_fresh s a (hseq a List.mem_cons_self) hclean
    have hhead : ((taskPlan s a).1.map (fun l => (⟨a.label, l, s.versions + 1⟩ : Rec))).map
        (fun r => (r.app, r.label)) = (taskPlan s a).1.map (fun l => (a.label, l)) := by
      simp [List.map_map, Function.comp]
    have hsplit : (newRecords s (a :: rest)).map (fun r => (r.app, r.label)) =
        (taskPlan s a).1.map (fun l => (a.label, l)) ++ (newRecords s rest).map (fun r => (r.app, r.label)) := by
      simp only [newRecords, List.flatMap_cons, List.map_append]
      rw [hhead]
    rw [hsplit]
    constructor
    · rw [List.nodup_append]
      refine ⟨?_, ihr.1, ?_⟩
      · exact List.Pairwise.map _ (fun x y hxy h => hxy (by injection h)) pn
      · intro x hx y hy hxy
        simp only [List.mem_map] at hx
        obtain ⟨l, _, e⟩ := hx
        have := (ihr.2 y hy).2
        rw [← hxy, ← e] at this
        exact hnd.1 this
    · intro k hk
      rcases List.mem_append.mp hk with h | h
      · simp only [List.mem_map] at h
        obtain ⟨l, hl, e⟩ := h
        subst e
        exact ⟨pf l hl, by simp⟩
      · have := ihr.2 k h
        exact ⟨this.1, List.mem_cons_of_mem _ this.2⟩

/-- **C08 invariant, every history**: whatever series of runs (complete or failed, any subset of
apps, apps gaining evolutions or appearing for the first time) and `wipe-evolution` commands is
applied, no evolution label of an app is ever recorded twice, and apps without a stored signature
stay without records. -/
theorem C08_once_step (s : HState) (st : Step) (hinv : Once s) (hclean : FreshClean s)
    (hwf : match st with | .run apps _ => RunWF apps | .markApplied app _ => s.known.contains app = true | _ => True)
    (hmark : match st with | .markApplied _ labels => labels.Nodup | _ => True) :
    Once (stepH s st) ∧ FreshClean (stepH s st) := by
  cases st with
  | run apps completes =>
    cases completes with
    | false => exact ⟨hinv, hclean⟩
    | true =>
      obtain ⟨hn, hf⟩ := newRecords_keys_nodup s apps hwf hclean
      constructor
      · unfold Once keys stepH
        simp only [List.map_append]
        rw [List.nodup_append]
        refine ⟨hinv, hn, ?_⟩
        intro x hx y hy hxy
        exact (hf y hy).1 (hxy ▸ hx)
      · intro r hr
        simp only [stepH, List.mem_append] at hr
        simp only [stepH]
        rcases hr with h | h
        · have := hclean r h
          simp only [List.contains_eq_mem, List.mem_append, decide_eq_true_eq] at this ⊢
          exact Or.inl this
        · have hk := (hf (r.app, r.label) (List.mem_map.mpr ⟨r, h, rfl⟩)).2
          simp only [List.contains_eq_mem, List.mem_append, List.mem_filter, decide_eq_true_eq]
          by_cases hkn : r.app ∈ s.known
          · exact Or.inl hkn
          · exact Or.inr ⟨hk, by simpa using hkn⟩
  | markApplied app labels =>
    simp only [stepH]
    split
    · exact ⟨hinv, hclean⟩
    · rename_i hnone
      constructor
      · unfold Once keys
        simp only [List.map_append, List.map_map]
        rw [List.nodup_append]
        refine ⟨hinv, ?_, ?_⟩
        · exact List.Pairwise.map _ (fun x y hxy h => hxy (by simp at h; exact h)) hmark
        · intro x hx y hy hxy
          simp only [List.mem_map, Function.comp] at hy
          obtain ⟨l, hl, e⟩ := hy
          subst e
          have : isRecorded s app l = true := (isRecorded_iff s app l).mpr (hxy ▸ hx)
          apply hnone
          simp only [List.any_eq_true]
          exact ⟨l, hl, this⟩
      · intro r hr
        simp only [List.mem_append, List.mem_map] at hr
        rcases hr with h | ⟨l, _, e⟩
        · exact hclean r h
        · subst e; exact hwf
  | wipe app label =>
    simp only [stepH]
    split
    · constructor
      · unfold Once keys
        exact (hinv.sublist ((List.filter_sublist).map _))
      · intro r hr
        exact hclean r (List.mem_filter.mp hr).1
    · exact ⟨hinv, hclean⟩

/-- **executed ⊆ unapplied, fresh apps execute nothing**: every label whose SQL a run executes
was not recorded when the run was prepared, and an app installed fresh executes none of its
sequence (it is recorded whole) -/
theorem C08_executed_unapplied (s : HState) (apps : List AppCfg) :
    ∀ k ∈ executed s apps, k ∉ keys s ∧ s.known.contains k.1 = true := by
  intro k hk
  unfold executed at hk
  simp only [List.mem_flatMap, List.mem_map] at hk
  obtain ⟨a, _, l, hl, e⟩ := hk
  subst e
  unfold taskPlan at hl
  split at hl
  · rename_i hkn
    simp only [unapplied, List.mem_filter, Bool.not_eq_true'] at hl
    refine ⟨?_, hkn⟩
    intro hmem
    have := (isRecorded_iff s a.label l).mpr hmem
    rw [this] at hl; exact absurd hl.2 (by simp)
  · cases hl

/-- recorded evolutions are never executed again by a later run -/
theorem C08_never_reexecuted (s : HState) (apps : List AppCfg) (app label : String)
    (h : (app, label) ∈ keys s) : (app, label) ∉ executed s apps :=
  fun hex => (C08_executed_unapplied s apps _ hex).1 h

/-- a failed run records nothing -/
theorem C08_failed_run_records_nothing (s : HState) (apps : List AppCfg) :
    stepH s (.run apps false) = s := rfl

/-- what is recorded by a complete run is attached to the version saved by that run -/
theorem C08_version_attached (s : HState) (apps : List AppCfg) :
    ∀ r ∈ newRecords s apps, r.version = s.versions + 1 := by
  intro r hr
  unfold newRecords at hr
  simp only [List.mem_flatMap, List.mem_map] at hr
  obtain ⟨a, _, l, _, e⟩ := hr
  subst e; rfl

/-- the hypothesis `known.contains app` on `mark-evolution-applied` is needed: marking an
evolution of an app that has never been evolved and then installing the app records it twice -/
theorem C08_cex_mark_then_install :
    let s0 : HState := ⟨[], [], 1⟩
    let s1 := stepH s0 (.markApplied "a" ["e1"])
    let s2 := stepH s1 (.run [⟨"a", ["e1", "e2"]⟩] true)
    keys s2 = [("a", "e1"), ("a", "e1"), ("a", "e2")] := by decide

/-- **tie of `newRecords` to the source**: `Evolver.evolve` collects the `new_evolutions` of every task of every
task class, unconditionally, into the one list it hands to `_save_project_sig` — what `stepH (.run apps true)`
records.  Read from the source on every run (Generated/Tables.lean). -/
theorem C08_source_collects_all : DEvo.Generated.collectsAllNewEvolutions = true := by decide

/-! ## a task executes only the SQL of the batch it is in (over the generated skeleton) -/

structure Guard where
  armed : Bool
  bad : Bool
  deriving DecidableEq, Repr, Inhabited

/-- `armed`: in this iteration of the loop over the batch's tasks, `task_sql` (the SQL that
`_build_batches` stored for this task IN THIS BATCH) was tested and found non-empty; `bad`:
`task.execute` was called otherwise (it would then fall back to the SQL of ALL the task's pending
evolutions) -/
def guardStep (st : Guard) (ev : DEvo.Skel.Event) : Guard :=
  match ev with
  | .iter c => if c == "six.iteritems(task_evolutions)" then { st with armed := false } else st
  | .branch c b => if c == "task_sql" then { st with armed := b } else st
  | .call n => if n == "task.execute" then { st with bad := st.bad || !st.armed } else st
  | _ => st

set_option maxRecDepth 16384 in
/-- **on every path through `execute_tasks` — any number of batches and tasks, an exception in any
call — `task.execute` runs only for a task that has SQL in the current batch**: an evolution whose
SQL belongs to another batch is not executed a second time here.  Re-checked on the regenerated
skeleton on every run. -/
theorem C08_task_runs_only_batch_sql :
    ∀ tr o, DEvo.Skel.Exec DEvo.Generated.taskExecuteTasks tr o →
      (DEvo.Skel.Mon.run ⟨guardStep⟩ ⟨false, false⟩ tr).bad = false := by
  intro tr o hex
  have := DEvo.Skel.reach_all ⟨guardStep⟩ 8 DEvo.Generated.taskExecuteTasks ⟨false, false⟩
    (fun _ st => !st.bad) (by decide) tr o hex
  simpa using this

/-- the monitor is not vacuous: a call without the test is flagged, a call after it is not -/
example :
    (DEvo.Skel.Mon.run ⟨guardStep⟩ ⟨false, false⟩
      [.iter "six.iteritems(task_evolutions)", .call "task_info.get", .call "task.execute"]).bad = true ∧
    (DEvo.Skel.Mon.run ⟨guardStep⟩ ⟨false, false⟩
      [.iter "six.iteritems(task_evolutions)", .call "task_info.get", .branch "task_sql" true,
       .call "task.execute"]).bad = false := by decide

end DEvo.Props.C08
