import Batteries.Data.List.Perm
import DEvo.Graph.Ordered
import DEvo.Graph.Batches
import DEvo.Generated.Tables

/-! # C09 — execution order respects every dependency

Property statements only; helper lemmas live in `DEvo/Graph/*`. -/

namespace DEvo.Props.C09
open DEvo.Graph

/-- A graph is acyclic iff it admits a rank function that strictly decreases along every
dependency edge. -/
def Acyclic (g : G) : Prop := ∃ rank : Nat → Nat, Ranked g rank

/-- **C09 core, every acyclic graph of every size**: `get_ordered()` returns every node
exactly once, and every dependency of a node occurs strictly before it. -/
theorem C09_perm_respects (g : G) (h : Acyclic g) :
    (getOrdered g).Nodup ∧ (∀ x, x ∈ getOrdered g ↔ x < g.n) ∧ DepOrd g (getOrdered g) := by
  obtain ⟨rank, hr⟩ := h
  have hspec := getOrderedFrom_spec g rank hr g.leaves [] (by
    intro pre x post e; cases pre <;> cases e)
  obtain ⟨ho, _, hl⟩ := hspec
  refine ⟨getOrderedFrom_nodup g _ _ List.nodup_nil, ?_, ho⟩
  intro x
  constructor
  · intro hx
    exact getOrderedFrom_lt g g.leaves [] (by intro y hy; cases hy) x hx
  · intro hx
    obtain ⟨l, hlm, hreach⟩ := leaf_reaches g rank hr (rankBound rank g.n)
      (rankBound_spec rank g.n) (rankBound rank g.n - rank x) x hx (Nat.le_refl _)
    exact depOrd_closed ho hreach (hl l hlm (leaves_lt g l hlm))

/-- `get_ordered()` terminates and never repeats or invents a node, cyclic or not. -/
theorem C09_no_dup_any_graph (g : G) :
    (getOrdered g).Nodup ∧ ∀ x ∈ getOrdered g, x < g.n :=
  ⟨getOrderedFrom_nodup g _ _ List.nodup_nil,
   getOrderedFrom_lt g g.leaves [] (by intro y hy; cases hy)⟩

/-- decidable sufficient condition for acyclicity: every dependency has a smaller index -/
def topoSorted (g : G) : Bool :=
  (List.range g.adj.length).all (fun x => (g.deps x).all (fun d => decide (d < x)))

theorem acyclic_of_topoSorted (g : G) (h : topoSorted g = true) : Acyclic g := by
  refine ⟨fun x => x, ?_⟩
  intro x d hd
  unfold topoSorted at h
  rw [List.all_eq_true] at h
  by_cases hx : x < g.adj.length
  · have := h x (List.mem_range.mpr hx)
    rw [List.all_eq_true] at this
    simpa using this d hd
  · exfalso
    unfold G.deps at hd
    have : g.adj.getD x [] = [] := by
      simp [List.getD, List.getElem?_eq_none (Nat.le_of_not_lt hx)]
    rw [this] at hd
    simp at hd

/-- non-vacuity: a diamond with a tail is acyclic -/
def diamond : G := ⟨5, [[], [0], [0], [1, 2], [3]]⟩
example : Acyclic diamond := acyclic_of_topoSorted _ (by decide)

/-! ## Cycles (finding F11): the statement "requirements that cannot all be met are reported
as an error" is *false* of `get_ordered` as written — it has no error outcome at all. -/

/-- with `validate = false` (today's code) the result is returned unconditionally; with
`validate = true` (repaired code) it is returned only when it is a complete, dependency
respecting order -/
def depOrdB (g : G) (res : List Nat) : Bool :=
  (List.range res.length).all (fun i =>
    (g.deps (res.getD i 0)).all (fun d => (res.take i).contains d))

def getOrderedE (validate : Bool) (g : G) : Except Unit (List Nat) :=
  let r := getOrdered g
  if validate && !(r.length == g.n && depOrdB g r) then .error () else .ok r

def cyc3 : G := ⟨3, [[1], [0], [0]]⟩     -- A↔B, C→A
def cyc2 : G := ⟨2, [[1], [0]]⟩          -- A↔B only

theorem getOrdered_cyc3 : getOrdered cyc3 = [0, 1, 2] := by
  have hl : cyc3.leaves = [2] := by decide
  simp only [getOrdered, hl, getOrderedFrom, List.foldl, runLeaf]
  rw [run_eq_runF cyc3 20 _ (by decide)]; decide

theorem getOrdered_cyc2 : getOrdered cyc2 = [] := by
  have hl : cyc2.leaves = [] := by decide
  simp only [getOrdered, hl, getOrderedFrom, List.foldl]

/-- F11 witness 1: A depends on B, yet A is returned (and executed) before B; no error. -/
theorem C09_cex_cycle_misordered :
    getOrderedE false cyc3 = .ok [0, 1, 2] ∧ (1 ∈ cyc3.deps 0) ∧ ¬ DepOrd cyc3 [0, 1, 2] := by
  refine ⟨by simp [getOrderedE, getOrdered_cyc3], by decide, ?_⟩
  intro h
  have := h [] 0 [1, 2] rfl 1 (by decide)
  cases this

/-- F11 witness 2: a component without a leaf is dropped entirely; no error. -/
theorem C09_cex_cycle_dropped : getOrderedE false cyc2 = .ok [] ∧ cyc2.n = 2 := by
  refine ⟨by simp [getOrderedE, getOrdered_cyc2], rfl⟩

theorem depOrdB_sound (g : G) (res : List Nat) (h : depOrdB g res = true) : DepOrd g res := by
  intro pre x post e d hd
  unfold depOrdB at h
  rw [List.all_eq_true] at h
  have hi := h pre.length (by simp [e])
  have hx : res.getD pre.length 0 = x := by simp [e]
  rw [hx, List.all_eq_true] at hi
  have := hi d hd
  have ht : res.take pre.length = pre := by simp [e]
  rw [ht] at this
  simpa using this

/-- Repaired variant (`validate = true`): whatever is returned is a complete dependency-
respecting order — for every graph, so a cyclic graph can only produce the error. -/
theorem C09_validated_sound (g : G) (r : List Nat) (h : getOrderedE true g = .ok r) :
    r = getOrdered g ∧ r.length = g.n ∧ DepOrd g r := by
  unfold getOrderedE at h
  simp only [Bool.true_and] at h
  split at h
  · cases h
  · rename_i hc
    injection h with h; subst h
    simp only [Bool.not_eq_true', Bool.not_eq_false', Bool.and_eq_true, beq_iff_eq] at hc
    simp at hc
    exact ⟨rfl, hc.1, depOrdB_sound g _ hc.2⟩

theorem depOrdB_complete (g : G) (res : List Nat) (h : DepOrd g res) : depOrdB g res = true := by
  unfold depOrdB
  rw [List.all_eq_true]
  intro i hi
  have hi' : i < res.length := List.mem_range.mp hi
  rw [List.all_eq_true]
  intro d hd
  have e : res = res.take i ++ res[i] :: res.drop (i + 1) := by
    simp
  have hx : res.getD i 0 = res[i] := by simp [List.getD, hi']
  rw [hx] at hd
  have := h (res.take i) res[i] (res.drop (i + 1)) e d hd
  simpa using this

/-- …and the validation never rejects an acyclic graph (no false error). -/
theorem C09_validated_complete (g : G) (h : Acyclic g) :
    getOrderedE true g = .ok (getOrdered g) := by
  obtain ⟨hn, hm, ho⟩ := C09_perm_respects g h
  have hlen : (getOrdered g).length = g.n := by
    have hp : (getOrdered g).Perm (List.range g.n) := by
      rw [List.perm_ext_iff_of_nodup hn List.nodup_range]
      intro a; rw [hm a]; simp
    simpa using hp.length_eq
  unfold getOrderedE
  simp [hlen, depOrdB_complete g _ ho]

/-- a complete dependency-respecting order exists only for acyclic graphs, so the repaired
variant reports *every* cyclic graph as an error -/
theorem C09_validated_cycle_reported (g : G) (h : ¬ Acyclic g) : getOrderedE true g = .error () := by
  cases hr : getOrderedE true g with
  | error e => rfl
  | ok r =>
    exfalso
    obtain ⟨he, hlen, ho⟩ := C09_validated_sound g r hr
    apply h
    have hnd : r.Nodup := he ▸ (C09_no_dup_any_graph g).1
    have hall : ∀ y, y < g.n → y ∈ r := by
      have hsub : r ⊆ List.range g.n := by
        intro y hy; exact List.mem_range.mpr ((C09_no_dup_any_graph g).2 y (he ▸ hy))
      have hp : r.Perm (List.range g.n) :=
        (List.subperm_of_subset hnd hsub).perm_of_length_le (by simp [hlen])
      intro y hy
      exact hp.symm.subset (List.mem_range.mpr hy)
    refine ⟨fun x => if x < g.n then r.idxOf x else g.n + 1, ?_⟩
    intro x d hd
    have hdlt := deps_lt g hd
    have hdm : d ∈ r := hall d hdlt
    simp only [hdlt, if_true]
    by_cases hxlt : x < g.n
    · simp only [hxlt, if_true]
      obtain ⟨pre, post, e⟩ := List.append_of_mem (hall x hxlt)
      have hdpre := ho pre x post e d hd
      have hxpre : x ∉ pre := by
        intro hx
        rw [e] at hnd
        have := (List.nodup_append.mp hnd).2.2 x hx x List.mem_cons_self
        exact this rfl
      rw [e, List.idxOf_append, List.idxOf_append]
      simp only [hdpre, hxpre, if_true, if_false, List.idxOf_cons_self]
      have := List.idxOf_lt_length_of_mem hdpre
      omega
    · simp only [hxlt, if_false]
      have := List.idxOf_lt_length_of_mem hdm
      omega

/-! ## Batching (`iter_batches`, `_build_batches`, `execute_tasks`) -/

/-- **every pending unit is executed exactly once**: the execution order is a permutation of
the non-anchor nodes of the ordered graph (regrouping never drops or duplicates). -/
theorem C09_once (ordered : List Unit') : (execOrder ordered).Perm (nonAnchor ordered) :=
  execOrder_perm ordered

/-- Full-strength batching statement: execution follows the graph order. False today (F16). -/
def C09_batch_order_statement : Prop := ∀ ordered, execOrder ordered = nonAnchor ordered

/-- F16 witness: graph order a1, b1, a2 (b1 AFTER a1, a2 AFTER b1) is executed a1, a2, b1. -/
theorem C09_cex_batch_regroup : ¬ C09_batch_order_statement := by
  intro h
  have := h [⟨0, .evolution, 0⟩, ⟨1, .evolution, 1⟩, ⟨2, .evolution, 0⟩]
  revert this; decide

/-- second F16 shape: a model creation ordered after an evolution is executed before it -/
theorem C09_cex_batch_create_first :
    execOrder [⟨0, .evolution, 0⟩, ⟨1, .create, 1⟩] = [⟨1, .create, 1⟩, ⟨0, .evolution, 0⟩] := by
  decide

/-! ## the current source -/

/-- `DependencyGraph.get_ordered` checks its result and raises (regenerated from the source on
every run; finding F11 repaired) -/
theorem C09_source_validates : DEvo.Generated.graphValidates = true := by decide

/-- **the order the current code returns respects every dependency and contains every node, for
every graph; it exists exactly for the acyclic ones** -/
theorem C09_current (g : G) :
    (∀ r, getOrderedE DEvo.Generated.graphValidates g = .ok r → r.length = g.n ∧ DepOrd g r) ∧
    (Acyclic g → getOrderedE DEvo.Generated.graphValidates g = .ok (getOrdered g)) ∧
    (¬ Acyclic g → getOrderedE DEvo.Generated.graphValidates g = .error ()) := by
  rw [C09_source_validates]
  exact ⟨fun r h => (C09_validated_sound g r h).2, C09_validated_complete g, C09_validated_cycle_reported g⟩

/-- the graph the model orders is the graph the caller described: `add_dependency` records every
requirement it is handed, unconditionally (read by the translator on every run) -/
theorem C09_source_add_dependency_records_all :
    DEvo.Generated.addDependencyBody = ["self._pending_deps.add((node_key, dep_node_key))"] := by decide

end DEvo.Props.C09
