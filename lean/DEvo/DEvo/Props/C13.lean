import DEvo.Ser.PyRoundTrip
import DEvo.Generated.Tables

/-! # C13 — hinted evolution text is loadable and means what the hint meant -/

namespace DEvo.Props.C13
open DEvo.Ser

/-- the printer configuration read off the current source -/
def cfg : PyCfg :=
  { seps := DEvo.Generated.qSeparators, singleChildFull := DEvo.Generated.qSingleChildFull,
    combOps := DEvo.Generated.combOperators, combMethods := DEvo.Generated.combMethods,
    combParens := DEvo.Generated.combParens, keepSubmodules := DEvo.Generated.keepSubmodules }

def kv (k : String) (v : V) : V := .tuple (.cons (.str k) (.cons v .nil))
def qa : V := .q none false (.cons (kv "a" (.int 1)) .nil)
def qb : V := .q none false (.cons (kv "b" (.int 2)) .nil)
def qXor : V := .q (some "XOR") false (.cons (kv "a" (.int 1)) (.cons (kv "b" (.int 2)) .nil))
def fA : V := .obj "django.db.models.F" (.cons (.str "a") .nil) .nil
def fB : V := .obj "django.db.models.F" (.cons (.str "b") .nil) .nil
def fC : V := .obj "django.db.models.F" (.cons (.str "c") .nil) .nil
def comb (op : String) (l r : V) : V := .obj combPath (.cons l (.cons (.str op) (.cons r .nil))) .nil

/-! ## the pinned code (findings F13 and F48, repaired in /repo) -/

/-- F13: a multi-child XOR had no separator: `serialize_to_python` raised KeyError -/
theorem C13_cex_xor : roundTrip .pinned qXor = .renderError (.keyError "XOR") := by decide

/-- F13: a Q whose only child is a Q was subscripted -/
theorem C13_cex_single_q_child :
    roundTrip .pinned (.q none false (.cons qa .nil)) = .renderError (.typeError "'Q' object is not subscriptable") := by
  decide

/-- F13: a single-child Q lost its connector -/
theorem C13_cex_connector_lost :
    roundTrip .pinned (.q (some "OR") false (.cons (kv "a" (.int 1)) .nil)) = .value qa := by decide

/-- F48: `(a + b) * c` was written `a + b * c`, which Python reads as `a + (b * c)` -/
theorem C13_cex_precedence :
    roundTrip .pinned (comb "*" (comb "+" fA fB) fC) = .value (comb "+" fA (comb "*" fB fC)) := by decide

/-- F48: the MOD connector `%%` is not a Python operator -/
theorem C13_cex_mod : roundTrip .pinned (comb "%%" fA fB) = .loadError .syntaxError := by decide

/-- F48: BITXOR `#` starts a comment: the right operand silently disappears -/
theorem C13_cex_bitxor_comment : roundTrip .pinned (comb "#" fA fB) = .value fA := by decide

/-! ## the current source -/

/-- the same values round-trip with the configuration the translator reads off the source now -/
theorem C13_fixed_witnesses :
    roundTrip cfg qXor = .value qXor ∧
    roundTrip cfg (.q none false (.cons qa .nil)) = .value (.q none false (.cons qa .nil)) ∧
    roundTrip cfg (.q (some "OR") false (.cons (kv "a" (.int 1)) .nil))
      = .value (.q (some "OR") false (.cons (kv "a" (.int 1)) .nil)) ∧
    roundTrip cfg (comb "*" (comb "+" fA fB) fC) = .value (comb "*" (comb "+" fA fB) fC) ∧
    roundTrip cfg (comb "%%" fA fB) = .value (comb "%%" fA fB) ∧
    roundTrip cfg (comb "^" fA fB) = .value (comb "^" fA fB) ∧
    roundTrip cfg (comb "#" fA fB) = .value (comb "#" fA fB) := by
  refine ⟨by decide, by decide, by decide, by decide, by decide, by decide, by decide⟩

def lowerName : V := .obj "django.db.models.functions.text.Lower" (.cons (.str "name") .nil) .nil

/-- the configuration extracted from the source is the one the round-trip theorem is proved for -/
theorem C13_cfg_is_current : cfg = cur := by decide

/-- **Round trip.**  For every value in `Good` — literals, lists/tuples/dicts of good values,
`django.db.models` enums and deconstructible objects with good arguments, combined expressions
with any of Django's eleven connectors and arbitrarily nested operands, and `Q` trees of any depth
whose connectors are AND/OR/XOR and whose nested `Q` children are ones that Django's own `&`, `|`,
`^` keep as one element (negated, or of another connector with several children) — the text
written by `serialize_to_python`, read the way Python reads it and evaluated with Django's
operators, is that value again.  (No bound on size or depth: mutual structural induction.) -/
theorem C13_roundtrip (v : V) (h : Good v = true) : roundTrip cfg v = .value v := by
  rw [C13_cfg_is_current]
  obtain ⟨p, hp, ho⟩ := good_toPy v h
  unfold roundTrip
  simp only [hp, ho.cut, ho.syn, Bool.not_true, Bool.false_eq_true, if_false]
  have hk : cur.keepSubmodules = true := rfl
  rw [hk]
  unfold reparse
  rw [ho.ev]

/-- non-vacuity: `Good` holds of non-trivial values —
`(Q(a=1) | Q(b=2)) & ~Q(a=1)`, `Q(a=1) ^ Q(b=2)`, `Q(Q(a=1), _connector='OR')`, `((a + b) * c) % a`,
`a.bitxor(b)`, `[{'k': ~(Q(a=1) | Q(b=2))}, Deferrable.DEFERRED]` -/
example : Good (.q none false (.cons (.q (some "OR") false (.cons (kv "a" (.int 1)) (.cons (kv "b" (.int 2)) .nil)))
      (.cons (.q none true (.cons (kv "a" (.int 1)) .nil)) .nil))) = true := by decide
example : Good qXor = true := by decide
example : Good (.q (some "OR") false (.cons qa .nil)) = true := by decide
example : Good (comb "%%" (comb "*" (comb "+" fA fB) fC) fA) = true := by decide
example : Good (comb "#" fA fB) = true := by decide
example : Good (.list (.cons (.dict (.cons "k" (.q (some "OR") true (.cons (kv "a" (.int 1)) (.cons (kv "b" (.int 2)) .nil))) .nil))
    (.cons (.enum "django.db.models.constraints.Deferrable" "DEFERRED") .nil))) = true := by decide

/-- …and `Good` is not all values: the shapes of findings F49 and F50 are outside it -/
example : Good (.obj "myapp.expressions.Double" (.cons fA .nil) .nil) = false := by decide
example : Good (.q none false (.cons (.q none false (.cons (kv "a" (.int 1)) (.cons (kv "b" (.int 2)) .nil)))
    (.cons (kv "c" (.int 3)) .nil))) = false := by decide

/-- F49 (repaired for django.db.models sub-modules): `Lower` lives in django.db.models.functions.text;
`models.Lower` does not exist -/
theorem C13_cex_function :
    roundTrip .pinned lowerName = .loadError (.attributeError "django.db.models.functions.text.Lower") := by decide

/-- …and is written `models.functions.text.Lower` by the current source -/
theorem C13_fixed_function : roundTrip cfg lowerName = .value lowerName := by decide

/-- F49, remaining part: a class outside django.db.models is written as a bare name that nothing imports -/
theorem C13_cex_foreign_class :
    roundTrip cfg (.obj "myapp.expressions.Double" (.cons fA .nil) .nil)
      = .loadError (.nameError "myapp.expressions.Double") := by decide

/-- F50: a non-negated Q child with its parent's connector is merged into the parent on load -/
theorem C13_cex_q_flattened :
    roundTrip cfg (.q none false (.cons (.q none false (.cons (kv "a" (.int 1)) (.cons (kv "b" (.int 2)) .nil)))
        (.cons (kv "c" (.int 3)) .nil)))
      = .value (.q none false (.cons (kv "a" (.int 1)) (.cons (kv "b" (.int 2)) (.cons (kv "c" (.int 3)) .nil)))) := by
  decide

/-- a value that needs user input renders to text that does not load -/
theorem C13_placeholder : roundTrip cfg (.obj placeholderPath .nil .nil) = .loadError .syntaxError := by decide

/-- sanity: `(Q(a=1) | Q(b=2)) & ~Q(a=1)` comes back unchanged -/
example : roundTrip cfg (.q none false (.cons (.q (some "OR") false (.cons (kv "a" (.int 1)) (.cons (kv "b" (.int 2)) .nil)))
      (.cons (.q none true (.cons (kv "a" (.int 1)) .nil)) .nil)))
    = .value (.q none false (.cons (.q (some "OR") false (.cons (kv "a" (.int 1)) (.cons (kv "b" (.int 2)) .nil)))
      (.cons (.q none true (.cons (kv "a" (.int 1)) .nil)) .nil))) := by decide

/-- a hint takes the field's own default only when the field has one, or is a text field that may be
blank (the empty string); every other NOT NULL column gets the placeholder that asks for a value (read by
the translator on every run) -/
theorem C13_source_initial_value_rule : DEvo.Generated.initialValueRule =
    "field and (field.has_default() or (field.empty_strings_allowed and field.blank))" := by decide

end DEvo.Props.C13
