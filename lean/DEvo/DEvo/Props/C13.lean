import DEvo.Ser.Py
import DEvo.Generated.Tables

/-! # C13 — hinted evolution text is loadable and means what the hint meant -/

namespace DEvo.Props.C13
open DEvo.Ser

def seps : List (String × String) := DEvo.Generated.qSeparators

def kv (k : String) (v : V) : V := .tuple (.cons (.str k) (.cons v .nil))
def qa : V := .q none false (.cons (kv "a" (.int 1)) .nil)
def qb : V := .q none false (.cons (kv "b" (.int 2)) .nil)

/-- F13: a multi-child XOR has no separator: `serialize_to_python` raises KeyError -/
theorem C13_cex_xor :
    roundTrip [("OR", " | "), ("AND", " & ")] (.q (some "XOR") false (.cons (kv "a" (.int 1)) (.cons (kv "b" (.int 2)) .nil)))
      = .renderError (.keyError "XOR") := by decide

/-- F13: a Q whose only child is a Q is subscripted -/
theorem C13_cex_single_q_child :
    roundTrip seps (.q none false (.cons qa .nil)) = .renderError (.typeError "'Q' object is not subscriptable") := by
  decide

/-- F13: a single-child Q loses its connector -/
theorem C13_cex_connector_lost :
    roundTrip seps (.q (some "OR") false (.cons (kv "a" (.int 1)) .nil)) = .value qa := by decide

def fA : V := .obj "django.db.models.F" (.cons (.str "a") .nil) .nil
def fB : V := .obj "django.db.models.F" (.cons (.str "b") .nil) .nil
def fC : V := .obj "django.db.models.F" (.cons (.str "c") .nil) .nil
def comb (op : String) (l r : V) : V := .obj combPath (.cons l (.cons (.str op) (.cons r .nil))) .nil

/-- F48: `(a + b) * c` is written `a + b * c`, which Python reads as `a + (b * c)` -/
theorem C13_cex_precedence :
    roundTrip seps (comb "*" (comb "+" fA fB) fC) = .value (comb "+" fA (comb "*" fB fC)) := by decide

/-- F48: the MOD connector `%%` is not a Python operator -/
theorem C13_cex_mod : roundTrip seps (comb "%%" fA fB) = .loadError .syntaxError := by decide

/-- F49: `Lower` lives in django.db.models.functions; `models.Lower` does not exist -/
theorem C13_cex_function :
    roundTrip seps (.obj "django.db.models.functions.Lower" (.cons (.str "name") .nil) .nil)
      = .loadError (.attributeError "django.db.models.functions.Lower") := by decide

/-- a value that needs user input renders to text that does not load -/
theorem C13_placeholder : roundTrip seps (.obj placeholderPath .nil .nil) = .loadError .syntaxError := by decide

/-- sanity: `(Q(a=1) | Q(b=2)) & ~Q(a=1)` comes back unchanged -/
example : roundTrip seps (.q none false (.cons (.q (some "OR") false (.cons (kv "a" (.int 1)) (.cons (kv "b" (.int 2)) .nil)))
      (.cons (.q none true (.cons (kv "a" (.int 1)) .nil)) .nil)))
    = .value (.q none false (.cons (.q (some "OR") false (.cons (kv "a" (.int 1)) (.cons (kv "b" (.int 2)) .nil)))
      (.cons (.q none true (.cons (kv "a" (.int 1)) .nil)) .nil))) := by decide

end DEvo.Props.C13
