import DEvo.Sql.Rebuild

/-! # C02 — evolutions preserve existing row data (the table rebuild's copy step) -/

namespace DEvo.Props.C02
open DEvo.Sql

/-- no surviving table gains or loses rows in a rebuild -/
theorem C02_card (p : Plan) (rows : List Row) : (copyRows p rows).length = rows.length := by
  simp [copyRows]

/-! ## positional binding against the declared initial values -/

/-- every placeholder's column has a bound-parameter initial declared for it -/
def PlaceholdersDeclared (ni : List (String × Init)) (fv : List (String × Src)) : Prop :=
  ∀ cs ∈ fv, isPlaceholder cs.2 = true → ∃ v, kget ni cs.1 = some (Init.param v)

/-- **parameter alignment**: if the parameters are passed in the order in which the
placeholders occur, every placeholder receives the initial value declared for *its own*
column — so every surviving value is unchanged, every added column holds its initial value, and
a null→non-null change replaces exactly the NULLs. -/
theorem evalRow_aligned (ni : List (String × Init)) :
    ∀ (fv : List (String × Src)) (r : Row), PlaceholdersDeclared ni fv →
      evalRow fv (alignedParams ni fv) r = intendedRow ni fv r := by
  intro fv
  induction fv with
  | nil => intro r _; rfl
  | cons cs rest ih =>
    intro r h
    obtain ⟨c, src⟩ := cs
    have hrest : PlaceholdersDeclared ni rest := fun x hx hp => h x (List.mem_cons_of_mem _ hx) hp
    cases src with
    | col o =>
      simp only [alignedParams, List.filterMap_cons, isPlaceholder, Bool.false_eq_true, if_false, evalRow,
        intendedRow, List.map_cons, intended]
      congr 1
      exact ih r hrest
    | embed s =>
      simp only [alignedParams, List.filterMap_cons, isPlaceholder, Bool.false_eq_true, if_false, evalRow,
        intendedRow, List.map_cons, intended]
      congr 1
      exact ih r hrest
    | param =>
      obtain ⟨v, hv⟩ := h (c, .param) List.mem_cons_self rfl
      simp only [alignedParams, List.filterMap_cons, isPlaceholder, if_true, hv, evalRow,
        intendedRow, List.map_cons, intended, List.head?_cons, List.tail_cons]
      congr 1
      exact ih r hrest
    | coalesceParam o =>
      obtain ⟨v, hv⟩ := h (c, .coalesceParam o) List.mem_cons_self rfl
      simp only [alignedParams, List.filterMap_cons, isPlaceholder, if_true, hv, evalRow,
        intendedRow, List.map_cons, intended, List.head?_cons, List.tail_cons]
      congr 1
      exact ih r hrest

/-- a surviving column that no initial value touches keeps its value, whatever the parameters -/
theorem C02_surviving (fv : List (String × Src)) (ps : List String) (r : Row) (c o : String) :
    ∀ (pre post : List (String × Src)), fv = pre ++ (c, Src.col o) :: post →
      (∀ x ∈ pre, x.1 ≠ c) → rowGet (evalRow fv ps r) c = rowGet r o := by
  intro pre
  induction pre generalizing fv ps with
  | nil =>
    intro post h _
    subst h
    simp [evalRow, rowGet, kget]
  | cons x pre ih =>
    intro post h hne
    subst h
    obtain ⟨xc, xs⟩ := x
    have hx : (xc == c) = false := by simpa using hne (xc, xs) List.mem_cons_self
    have key : ∀ ps', rowGet (evalRow (pre ++ (c, Src.col o) :: post) ps' r) c = rowGet r o :=
      fun ps' => ih _ ps' post rfl (fun y hy => hne y (List.mem_cons_of_mem _ hy))
    cases xs <;> simp only [List.cons_append, evalRow, rowGet, kget, List.find?, hx] <;>
      first
      | exact key ps
      | exact key ps.tail

/-- whenever today's parameter order coincides with the placeholder order, today's code binds
every placeholder correctly -/
theorem C02_partial_orders_agree (oldCols : List String) (items : List Item) (r : Row)
    (hdecl : PlaceholdersDeclared (newInitial items) (fieldValuesOf oldCols items))
    (hagree : paramsOf false oldCols items = paramsOf true oldCols items) :
    evalRow (plan false oldCols items).fieldValues (plan false oldCols items).params r =
      intendedRow (newInitial items) (fieldValuesOf oldCols items) r := by
  simp only [plan, hagree]
  have : paramsOf true oldCols items = alignedParams (newInitial items) (fieldValuesOf oldCols items) := by
    simp [paramsOf]
  rw [this]
  exact evalRow_aligned _ _ r hdecl

/-- the repaired order is always correct (same statement, no agreement hypothesis) -/
theorem C02_aligned (oldCols : List String) (items : List Item) (r : Row)
    (hdecl : PlaceholdersDeclared (newInitial items) (fieldValuesOf oldCols items)) :
    evalRow (plan true oldCols items).fieldValues (plan true oldCols items).params r =
      intendedRow (newInitial items) (fieldValuesOf oldCols items) r := by
  have : paramsOf true oldCols items = alignedParams (newInitial items) (fieldValuesOf oldCols items) := by
    simp [paramsOf]
  simp only [plan, this]
  exact evalRow_aligned _ _ r hdecl

/-! ## finding F3: two parameterised initials in one rebuild -/

def f3Cols : List String := ["id", "a", "c"]
def f3Items : List Item :=
  [.modifyColumn "a" (some (.param "7")), .addColumn "d" (some (.param "q")),
   .modifyColumn "c" (some (.param "zz"))]
def f3Row : Row := [("id", some "1"), ("a", none), ("c", none)]

/-- today's order: `new_initial` is walked in mutation order (a, d, c) while the placeholders
stand in `field_values` order (a, c, d): the NULL in `c` receives the *new column's* initial
`'q'`, and the new column `d` receives `'zz'`. -/
theorem C02_cex_param_misbinding :
    evalRow (plan false f3Cols f3Items).fieldValues (plan false f3Cols f3Items).params f3Row =
      [("id", some "1"), ("a", some "7"), ("c", some "q"), ("d", some "zz")] := by decide

/-- the repaired order on the same input -/
theorem C02_fixed_witness :
    evalRow (plan true f3Cols f3Items).fieldValues (plan true f3Cols f3Items).params f3Row =
      [("id", some "1"), ("a", some "7"), ("c", some "zz"), ("d", some "q")] := by decide

/-- non-vacuity: the witness satisfies the hypothesis of the alignment theorems -/
example : PlaceholdersDeclared (newInitial f3Items) (fieldValuesOf f3Cols f3Items) := by
  intro cs hcs hp
  have : cs ∈ [("id", Src.col "id"), ("a", Src.coalesceParam "a"), ("c", Src.coalesceParam "c"), ("d", Src.param)] := by
    have e : fieldValuesOf f3Cols f3Items =
        [("id", Src.col "id"), ("a", Src.coalesceParam "a"), ("c", Src.coalesceParam "c"), ("d", Src.param)] := by decide
    rw [e] at hcs; exact hcs
  simp only [List.mem_cons, List.mem_nil_iff, or_false] at this
  rcases this with h | h | h | h <;> subst h
  · simp [isPlaceholder] at hp
  · exact ⟨"7", by decide⟩
  · exact ⟨"zz", by decide⟩
  · exact ⟨"q", by decide⟩

end DEvo.Props.C02
