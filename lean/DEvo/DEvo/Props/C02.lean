import DEvo.Sql.RebuildLemmas
import DEvo.Mut.Steps
import DEvo.Generated.Tables

/-! # C02 — evolutions preserve existing row data (the table rebuild's copy step) -/

namespace DEvo.Props.C02
open DEvo.Sql

/-- no surviving table gains or loses rows in a rebuild -/
theorem C02_card (p : Plan) (rows : List Row) : (copyRows p rows).length = rows.length := by
  simp [copyRows]

/-! ## positional binding against the declared initial values -/

/-- every placeholder's column has a bound-parameter initial declared for it -/
def PlaceholdersDeclared (ni : List (String × Init)) (fv : List (String × Src)) : Prop :=
  ∀ cs ∈ fv, isPlaceholder cs.2 = true → ∃ v, kget ni cs.1 = some (Init.param v)

/-- **parameter alignment**: if the parameters are passed in the order in which the
placeholders occur, every placeholder receives the initial value declared for *its own*
column — so every surviving value is unchanged, every added column holds its initial value, and
a null→non-null change replaces exactly the NULLs. -/
theorem evalRow_aligned (ni : List (String × Init)) :
    ∀ (fv : List (String × Src)) (r : Row), PlaceholdersDeclared ni fv →
      evalRow fv (alignedParams ni fv) r = intendedRow ni fv r := by
  intro fv
  induction fv with
  | nil => intro r _; rfl
  | cons cs rest ih =>
    intro r h
    obtain ⟨c, src⟩ := cs
    have hrest : PlaceholdersDeclared ni rest := fun x hx hp => h x (List.mem_cons_of_mem _ hx) hp
    cases src with
    | col o =>
      simp only [alignedParams, List.filterMap_cons, isPlaceholder, Bool.false_eq_true, if_false, evalRow,
        intendedRow, List.map_cons, intended]
      congr 1
      exact ih r hrest
    | embed s =>
      simp only [alignedParams, List.filterMap_cons, isPlaceholder, Bool.false_eq_true, if_false, evalRow,
        intendedRow, List.map_cons, intended]
      congr 1
      exact ih r hrest
    | param =>
      obtain ⟨v, hv⟩ := h (c, .param) List.mem_cons_self rfl
      simp only [alignedParams, List.filterMap_cons, isPlaceholder, if_true, hv, evalRow,
        intendedRow, List.map_cons, intended, List.head?_cons, List.tail_cons]
      congr 1
      exact ih r hrest
    | coalesceParam o =>
      obtain ⟨v, hv⟩ := h (c, .coalesceParam o) List.mem_cons_self rfl
      simp only [alignedParams, List.filterMap_cons, isPlaceholder, if_true, hv, evalRow,
        intendedRow, List.map_cons, intended, List.head?_cons, List.tail_cons]
      congr 1
      exact ih r hrest
    | coalesceEmbed o s =>
      simp only [alignedParams, List.filterMap_cons, isPlaceholder, Bool.false_eq_true, if_false, evalRow,
        intendedRow, List.map_cons, intended]
      congr 1
      exact ih r hrest

/-- a surviving column that no initial value touches keeps its value, whatever the parameters -/
theorem C02_surviving (fv : List (String × Src)) (ps : List String) (r : Row) (c o : String) :
    ∀ (pre post : List (String × Src)), fv = pre ++ (c, Src.col o) :: post →
      (∀ x ∈ pre, x.1 ≠ c) → rowGet (evalRow fv ps r) c = rowGet r o := by
  intro pre
  induction pre generalizing fv ps with
  | nil =>
    intro post h _
    subst h
    simp [evalRow, rowGet, kget]
  | cons x pre ih =>
    intro post h hne
    subst h
    obtain ⟨xc, xs⟩ := x
    have hx : (xc == c) = false := by simpa using hne (xc, xs) List.mem_cons_self
    have key : ∀ ps', rowGet (evalRow (pre ++ (c, Src.col o) :: post) ps' r) c = rowGet r o :=
      fun ps' => ih _ ps' post rfl (fun y hy => hne y (List.mem_cons_of_mem _ hy))
    cases xs <;> simp only [List.cons_append, evalRow, rowGet, kget, List.find?, hx] <;>
      first
      | exact key ps
      | exact key ps.tail

/-- whenever today's parameter order coincides with the placeholder order, today's code binds
every placeholder correctly -/
theorem C02_partial_orders_agree (cfg : CopyCfg) (oldCols : List String) (items : List Item) (r : Row)
    (hdecl : PlaceholdersDeclared (effective cfg false (newInitial items)) (fieldValuesOf cfg oldCols items))
    (hagree : paramsOf cfg oldCols items =
      alignedParams (effective cfg false (newInitial items)) (fieldValuesOf cfg oldCols items)) :
    evalRow (plan cfg oldCols items).fieldValues (plan cfg oldCols items).params r =
      intendedRow (effective cfg false (newInitial items)) (fieldValuesOf cfg oldCols items) r := by
  simp only [plan, hagree]
  exact evalRow_aligned _ _ r hdecl

/-- the declared-placeholder premise of the alignment theorems always holds for the `field_values` the
loop builds (so it is no longer a hypothesis below) -/
theorem placeholders_declared (cfg : CopyCfg) (hf : cfg.flagPerItem = true) (oldCols : List String)
    (items : List Item) :
    PlaceholdersDeclared (newInitial items) (fieldValuesOf cfg oldCols items) := by
  intro cs hcs hp
  unfold fieldValuesOf at hcs
  rw [effective_id cfg hf] at hcs
  have := placeholders_of_foldl cfg (newInitial items) (baseValues oldCols items) (by
    intro q hq hqp
    simp only [baseValues, List.mem_map] at hq
    obtain ⟨x, _, e⟩ := hq
    subst e
    simp [isPlaceholder] at hqp) cs hcs hp
  obtain ⟨v, hv⟩ := this
  exact ⟨v, kget_of_mem_nodup _ (nodup_keys_newInitial items) _ _ hv⟩

/-- no initial value given as SQL text (callable initial) is declared for a column that survives the
rebuild — the only situation in which today's un-coalesced embedding is harmless -/
def NoEmbedOnSurvivor (oldCols : List String) (items : List Item) : Prop :=
  ∀ c s, kget (newInitial items) c = some (Init.embed s) → (survivors oldCols items).contains c = false

/-- **C02, the copy step, at full strength**: with parameters passed in placeholder order, the
embed-or-bind decision taken per initial value, and embedded SQL text coalesced on existing columns
(or no such text declared for an existing column), EVERY column of EVERY row of the rebuilt table
holds what the property demands (`specValue`, stated from the old row and the declared initial values
alone): surviving values unchanged, NULLs of a column with a declared initial replaced by it, new
columns filled with their initial value.  All column lists, item lists, rows; no size bound. -/
theorem C02_copy_correct (cfg : CopyCfg) (ha : cfg.aligned = true) (hf : cfg.flagPerItem = true)
    (oldCols : List String) (items : List Item)
    (he : cfg.embedCoalesces = true ∨ NoEmbedOnSurvivor oldCols items) (r : Row) (c : String) :
    rowGet (evalRow (plan cfg oldCols items).fieldValues (plan cfg oldCols items).params r) c =
      specValue oldCols items r c := by
  have hp : (plan cfg oldCols items).params =
      alignedParams (newInitial items) (fieldValuesOf cfg oldCols items) := by
    simp [plan, paramsOf, ha, effective_id cfg hf]
  rw [hp]
  show rowGet (evalRow (fieldValuesOf cfg oldCols items) _ r) c = _
  rw [evalRow_aligned _ _ r (placeholders_declared cfg hf oldCols items), rowGet_intendedRow]
  have hk : kget (fieldValuesOf cfg oldCols items) c =
      match kget (newInitial items) c with
      | none => kget (baseValues oldCols items) c
      | some i => some (srcFor cfg (kget (baseValues oldCols items) c).isSome c i) := by
    unfold fieldValuesOf
    rw [effective_id cfg hf]
    exact kget_foldl_fvStep cfg _ (nodup_keys_newInitial items) _ c
  rw [hk, kget_baseValues]
  unfold specValue
  cases hn : kget (newInitial items) c with
  | none =>
    by_cases hs : (survivors oldCols items).contains c = true
    · simp only [hs, if_true, intended, Option.map_none]
      cases rowGet r c <;> rfl
    · have hs' : (survivors oldCols items).contains c = false := by simpa using hs
      simp only [hs', Bool.false_eq_true, if_false, Option.map_none]
  | some i =>
    by_cases hs : (survivors oldCols items).contains c = true
    · cases i with
      | param v =>
        simp only [hs, if_true, Option.isSome_some, srcFor, intended, hn, Option.map_some, Init.value]
      | embed s =>
        rcases he with he | he
        · simp only [hs, if_true, Option.isSome_some, srcFor, he, Bool.and_self, intended, Option.map_some,
            Init.value]
        · have := he c s hn
          rw [hs] at this
          exact absurd this (by simp)
    · have hs' : (survivors oldCols items).contains c = false := by simpa using hs
      cases i with
      | param v =>
        simp only [hs', Bool.false_eq_true, if_false, Option.isSome_none, srcFor, intended, hn, Option.map_some,
          Init.value]
      | embed s =>
        simp only [hs', Bool.false_eq_true, if_false, Option.isSome_none, srcFor, Bool.false_and, intended,
          Option.map_some, Init.value]

/-- the order-only statement kept from before: the repaired parameter order binds every placeholder to
its own column's initial -/
theorem C02_aligned (cfg : CopyCfg) (ha : cfg.aligned = true) (hf : cfg.flagPerItem = true)
    (oldCols : List String) (items : List Item) (r : Row) :
    evalRow (plan cfg oldCols items).fieldValues (plan cfg oldCols items).params r =
      intendedRow (newInitial items) (fieldValuesOf cfg oldCols items) r := by
  have hp : (plan cfg oldCols items).params =
      alignedParams (newInitial items) (fieldValuesOf cfg oldCols items) := by
    simp [plan, paramsOf, ha, effective_id cfg hf]
  rw [hp]
  exact evalRow_aligned _ _ r (placeholders_declared cfg hf oldCols items)

/-! ## finding F3: two parameterised initials in one rebuild -/

def f3Cols : List String := ["id", "a", "c"]
def f3Items : List Item :=
  [.modifyColumn "a" (some (.param "7")), .addColumn "d" (some (.param "q")),
   .modifyColumn "c" (some (.param "zz"))]
def f3Row : Row := [("id", some "1"), ("a", none), ("c", none)]

/-- the repaired copy, and today's pre-F3 order -/
def good : CopyCfg := ⟨true, true, true⟩
def unaligned : CopyCfg := ⟨false, false, true⟩

/-- unaligned order: `new_initial` is walked in mutation order (a, d, c) while the placeholders
stand in `field_values` order (a, c, d): the NULL in `c` receives the *new column's* initial
`'q'`, and the new column `d` receives `'zz'`. -/
theorem C02_cex_param_misbinding :
    evalRow (plan unaligned f3Cols f3Items).fieldValues (plan unaligned f3Cols f3Items).params f3Row =
      [("id", some "1"), ("a", some "7"), ("c", some "q"), ("d", some "zz")] := by decide

/-- the repaired order on the same input -/
theorem C02_fixed_witness :
    evalRow (plan good f3Cols f3Items).fieldValues (plan good f3Cols f3Items).params f3Row =
      [("id", some "1"), ("a", some "7"), ("c", some "zz"), ("d", some "q")] := by decide

/-- non-vacuity: the witness satisfies the premise of the alignment theorem -/
example : PlaceholdersDeclared (newInitial f3Items) (fieldValuesOf good f3Cols f3Items) :=
  placeholders_declared good rfl f3Cols f3Items

/-! ## the copy configuration of the current source -/

/-- what the translator read from `SQLiteAlterTableSQLResult.to_sql` (Generated/Tables.lean), with the
parameter order as repaired by fix a581476 (that flag is probed on every run, see tools/vlib/props/c02.py) -/
def current : CopyCfg := ⟨true, DEvo.Generated.copyEmbedCoalesces, DEvo.Generated.copyFlagPerItem⟩

/-- what the model takes for granted about the copy, checked against the source on every run: an initial value is
registered for the copy exactly when one was given (`is not None` - a falsy value such as 0, False or the empty
string is a value), and an existing column is told from a new one by looking the COLUMN up among the columns that
are copied (`field_values`, keyed by column) -/
theorem C02_source_copy_guards :
    DEvo.Generated.copyRegisterGuards = ["initial is not None"] ∧
    DEvo.Generated.copyLoopGuard = "initial is not None" ∧
    DEvo.Generated.copyCoalesceTests = ["column in field_values"] := by decide

/-- the embed-or-bind decision is taken per initial value in the current source -/
theorem C02_source_flag_per_item : DEvo.Generated.copyFlagPerItem = true := by decide

/-- **C02 for the current source** (a corollary of `C02_copy_correct`): every column of every rebuilt
row is what the property demands, provided no callable initial (SQL text) is declared for a column that
survives — the remaining gap is finding F57 below. -/
theorem C02_current_partial (oldCols : List String) (items : List Item)
    (hne : DEvo.Generated.copyEmbedCoalesces = true ∨ NoEmbedOnSurvivor oldCols items) (r : Row) (c : String) :
    rowGet (evalRow (plan current oldCols items).fieldValues (plan current oldCols items).params r) c =
      specValue oldCols items r c :=
  C02_copy_correct current rfl C02_source_flag_per_item oldCols items hne r c

/-! ## finding F57: a callable initial on a null→non-null change overwrites every value -/

def f57Cols : List String := ["id", "qty"]
def f57Items : List Item := [.modifyColumn "qty" (some (.embed "1 + 1"))]
def f57Row : Row := [("id", some "1"), ("qty", some "7")]

/-- today (no coalesce around embedded text): the existing value 7 is replaced; the property demands 7 -/
theorem C02_cex_embed_overwrites :
    DEvo.Generated.copyEmbedCoalesces = false →
    rowGet (evalRow (plan current f57Cols f57Items).fieldValues (plan current f57Cols f57Items).params f57Row) "qty"
        = some "1 + 1" ∧ specValue f57Cols f57Items f57Row "qty" = some "7" := by
  intro h
  simp only [current, h]
  decide

/-- with the coalesce, the same input keeps its value -/
theorem C02_fixed_embed :
    rowGet (evalRow (plan good f57Cols f57Items).fieldValues (plan good f57Cols f57Items).params f57Row) "qty"
      = some "7" := by decide

/-- the witness is outside the premise of the partial theorem, as it must be -/
example : ¬ NoEmbedOnSurvivor f57Cols f57Items := by
  intro h
  have := h "qty" "1 + 1" (by decide)
  exact absurd this (by decide)

/-! ## a stale embed flag (what a seeded change did): later plain initials are embedded too -/

def staleCfg : CopyCfg := ⟨true, false, false⟩
def staleItems : List Item := [.addColumn "seq" (some (.embed "42")), .modifyColumn "qty" (some (.param "0"))]

theorem C02_cex_stale_embed_flag :
    rowGet (evalRow (plan staleCfg f57Cols staleItems).fieldValues (plan staleCfg f57Cols staleItems).params f57Row)
        "qty" = some "0" ∧ specValue f57Cols staleItems f57Row "qty" = some "7" := by decide

/-! ## renames -/

open DEvo.Mut DEvo.Sig in
/-- **a rename never loses a column**: after an accepted `RenameField(old, new)` - `old = new` included, which is
what the optimiser makes of a rename and its reversal - the model has a field called `new`, and every field other
than the renamed one is still there, unchanged -/
theorem C02_rename_keeps_fields (old new : String) (c t : Option String) (m m' : ModelSig)
    (h : simRenameField old new c t m = .ok m') :
    (∃ g ∈ m'.fields, g.name = new) ∧
    (∀ g ∈ m.fields, g.name ≠ old → g.name ≠ new → g ∈ m'.fields) := by
  unfold simRenameField at h
  cases hf : m.getField old with
  | none => simp [hf] at h
  | some f =>
    simp only [hf, Except.ok.injEq] at h
    subst h
    constructor
    · refine ⟨_, mem_setFieldL_self _ _, rfl⟩
    · intro g hg ho hn
      apply mem_setFieldL_other
      · simp only [ModelSig.removeField, List.mem_filter]
        exact ⟨hg, by simpa using ho⟩
      · exact hn

end DEvo.Props.C02
