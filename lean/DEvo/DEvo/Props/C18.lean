import DEvo.Sql.Merge

/-! # C18 — batched changes rewrite each table once, never more than unbatched -/

namespace DEvo.Props.C18
open DEvo.Sql

/-! ## grouping never costs rebuilds -/

theorem filter_any_length_le {α} (p : α → Bool) (gs : List (List α)) :
    (gs.filter (fun g => g.any p)).length ≤ (gs.flatMap id |>.filter p).length := by
  induction gs with
  | nil => simp
  | cons g r ih =>
    simp only [List.filter_cons, List.flatMap_cons, id, List.filter_append, List.length_append]
    cases hg : g.any p with
    | false => simp only [Bool.false_eq_true, if_false]; omega
    | true =>
      simp only [if_true, List.length_cons]
      have : 1 ≤ (g.filter p).length := by
        rw [List.any_eq_true] at hg
        obtain ⟨x, hx, hp⟩ := hg
        have : x ∈ g.filter p := List.mem_filter.mpr ⟨hx, hp⟩
        exact List.length_pos_of_mem this
      omega

/-- the groups partition the op list: every op is in exactly one group (as a multiset) -/
theorem groupsAux_perm (m : List String) : ∀ (ops : List Op) (acc : List (List Op)),
    ((groupsAux m ops acc).flatMap id).Perm (ops ++ acc.flatMap id) := by
  intro ops
  induction ops with
  | nil => intro acc; simp [groupsAux]
  | cons op rest ih =>
    intro acc
    match acc with
    | [] =>
      simp only [groupsAux]
      refine (ih [[op]]).trans ?_
      simp only [List.flatMap_cons, id, List.flatMap_nil, List.append_nil, List.cons_append, List.nil_append]
      exact (List.perm_append_comm (l₁ := rest) (l₂ := [op]))
    | [] :: acc' =>
      simp only [groupsAux]
      refine (ih ([op] :: acc')).trans ?_
      simp only [List.flatMap_cons, id, List.nil_append, List.cons_append]
      exact List.perm_middle
    | (prev :: g) :: acc' =>
      simp only [groupsAux]
      split
      · refine (ih ((op :: prev :: g) :: acc')).trans ?_
        simp only [List.flatMap_cons, id, List.cons_append]
        exact List.perm_middle
      · refine (ih ([op] :: (prev :: g) :: acc')).trans ?_
        simp only [List.flatMap_cons, id, List.cons_append, List.nil_append]
        exact List.perm_middle

/-- **C18, per op list**: lowering the queued operations of a model in merged groups rebuilds
the table no more often than lowering each operation by itself — for every `mergeable_ops`
table, every op list. -/
theorem C18_monotone (mergeable rebuildItems : List String) (ops : List Op) :
    rebuilds mergeable rebuildItems ops ≤ (ops.filter (Op.needsRebuild rebuildItems)).length := by
  unfold rebuilds groups
  refine Nat.le_trans (filter_any_length_le _ _) ?_
  have hp := groupsAux_perm mergeable ops []
  simp only [List.flatMap_nil, List.append_nil] at hp
  exact Nat.le_of_eq ((hp.filter _).length_eq)

/-! ## a run of mergeable operations is one group -/

theorem groupsAux_single (m : List String) : ∀ (ops : List Op) (prev : Op) (g : List Op) (acc : List (List Op)),
    m.contains prev.typ = true → (∀ op ∈ ops, m.contains op.typ = true) →
    ∃ g', groupsAux m ops ((prev :: g) :: acc) = g' :: acc := by
  intro ops
  induction ops with
  | nil => intro prev g acc _ _; exact ⟨prev :: g, rfl⟩
  | cons op rest ih =>
    intro prev g acc hp hall
    simp only [groupsAux, mergeableWith, hp, hall op List.mem_cons_self, Bool.and_self, if_true]
    exact ih op (prev :: g) acc (hall op List.mem_cons_self) (fun o ho => hall o (List.mem_cons_of_mem _ ho))

/-- **a run of operations whose types are all mergeable is carried out with at most one
rebuild** -/
theorem C18_single (mergeable rebuildItems : List String) (ops : List Op)
    (hall : ∀ op ∈ ops, mergeable.contains op.typ = true) : rebuilds mergeable rebuildItems ops ≤ 1 := by
  unfold rebuilds groups
  cases ops with
  | nil => simp [groupsAux]
  | cons op rest =>
    simp only [groupsAux]
    obtain ⟨g', hg⟩ := groupsAux_single mergeable rest op [] [] (hall op List.mem_cons_self)
      (fun o ho => hall o (List.mem_cons_of_mem _ ho))
    rw [hg]
    simp only [List.filter_cons, List.filter_nil]
    split <;> simp

/-- the documented guarantee: with a `mergeable_ops` table that contains the four documented
operation types, any run of column additions, deletions, attribute changes and Meta changes on
one model is a single rebuild -/
theorem C18_documented (mergeable rebuildItems : List String) (ops : List Op)
    (hok : mergeableOK mergeable = true)
    (hall : ∀ op ∈ ops, op.typ = "add_column" ∨ op.typ = "change_column" ∨ op.typ = "delete_column" ∨
                         op.typ = "change_meta") : rebuilds mergeable rebuildItems ops ≤ 1 := by
  apply C18_single
  intro op hop
  unfold mergeableOK at hok
  simp only [Bool.and_eq_true] at hok
  rcases hall op hop with h | h | h | h <;> rw [h]
  · exact hok.1.1.1
  · exact hok.1.1.2
  · exact hok.1.2
  · exact hok.2

/-! ## the table in the source today (finding F15) -/

/-- a concatenated literal (`'change_meta' 'delete_column'`) leaves both `change_meta` and
`delete_column` out of the table, so an added and a deleted column are two rebuilds -/
theorem C18_cex_add_delete :
    rebuilds ["add_column", "change_column", "change_metadelete_column"] Generated.rebuildItems
      [opOf "add_column" [], opOf "delete_column" []] = 2 := by decide

/-- with the intended table the same two operations are one rebuild -/
theorem C18_fixed_add_delete :
    rebuilds ["add_column", "change_column", "change_meta", "delete_column"] Generated.rebuildItems
      [opOf "add_column" [], opOf "delete_column" []] = 1 := by decide

/-- non-vacuity of `C18_documented`: the intended table satisfies its hypothesis -/
example : mergeableOK ["add_column", "change_column", "change_meta", "delete_column"] = true := by decide

end DEvo.Props.C18
