import DEvo.Sql.Schema
import DEvo.Opt.Regroup
import DEvo.Generated.Tables
import DEvo.Sql.DbState

/-! # C01 — evolved database schema equals the schema of freshly created models

What is proved here is the part of the statement that lives in the signature algebra and in the
rebuild's column/index mapping; SQLite's execution of the emitted statements and Django's own
`CREATE TABLE` output are observed by the evolved-vs-fresh oracle, not proved. -/

namespace DEvo.Props.C01
open DEvo.Sig DEvo.Mut DEvo.Sql DEvo.Opt

/-- **rebuild = fresh on plain models**: for every model without `unique_together`,
`index_together`, `Meta.indexes`, `Meta.constraints` and without CHECK-carrying fields, the table
that the SQLite rebuild re-creates from the evolved field list is exactly the table of the
freshly created evolved model (same columns with type, nullability and primary key, same
single-column indexes and unique constraints). -/
theorem C01_partial_rebuild_plain (e : Env) (m : ModelSig) (h : plainModel m = true) :
    rebuilt e m = fresh e m := by
  unfold plainModel at h
  simp only [Bool.and_eq_true, List.isEmpty_iff, List.all_eq_true] at h
  obtain ⟨⟨⟨⟨hut, hit⟩, _⟩, _⟩, hpos⟩ := h
  have hchecks : fieldChecks (dataFields m) = [] := by
    unfold fieldChecks
    rw [List.filterMap_eq_nil_iff]
    intro f hf
    have := hpos f hf
    simp only [bne_iff_ne, ne_eq] at this
    simp [this]
  simp [rebuilt, fresh, tableLevelIndexes, hut, hit, hchecks]

def utModel : ModelSig :=
  { name := "Book", table := "a_book", pkColumn := "\"id\"",
    fields := [⟨"id", "AutoField", [("primary_key", "true")], none⟩, ⟨"a", "IntegerField", [], none⟩,
               ⟨"b", "IntegerField", [], none⟩],
    uniqueTogether := [["a", "b"]], utApplied := true, indexTogether := [], indexes := [],
    constraints := [], comment := "null", tablespace := "null" }

def posModel : ModelSig :=
  { name := "Book", table := "a_book", pkColumn := "\"id\"",
    fields := [⟨"id", "AutoField", [("primary_key", "true")], none⟩, ⟨"n", "PositiveIntegerField", [], none⟩],
    uniqueTogether := [], utApplied := true, indexTogether := [], indexes := [],
    constraints := [], comment := "null", tablespace := "null" }

/-- F1: with a `unique_together` the rebuilt table lacks the unique index that a fresh table has -/
theorem C01_cex_rebuild_drops_unique_together :
    (fresh sqliteEnv utModel).indexes = [⟨["a", "b"], true⟩] ∧ (rebuilt sqliteEnv utModel).indexes = [] := by
  decide

/-- F22: the CHECK of a `PositiveIntegerField` is not part of the rebuilt column definition -/
theorem C01_cex_rebuild_drops_check :
    (fresh sqliteEnv posModel).checks = ["n>=0"] ∧ (rebuilt sqliteEnv posModel).checks = [] := by
  decide

/-- **foreign-key targets of a rebuilt table equal those of a fresh table** when the rebuild
references `pk.column` -/
theorem C01_fk_targets (e : Env) (lookup : String → Option ModelSig) (m : ModelSig) :
    rebuiltFks "column" e lookup m = freshFks e lookup m := by
  unfold rebuiltFks freshFks
  congr 1

/-- …and that is the attribute the source uses (regenerated from `build_column_schema` each run) -/
theorem C01_fk_reference_is_pk_column : DEvo.Generated.fkReferenceAttr = "column" := by decide

def pkColModel : ModelSig :=
  { name := "Parent", table := "a_parent", pkColumn := "\"base_id\"",
    fields := [⟨"base", "OneToOneField", [("primary_key", "true")], some "a.Root"⟩],
    uniqueTogether := [], utApplied := true, indexTogether := [], indexes := [],
    constraints := [], comment := "null", tablespace := "null" }

def childModel : ModelSig :=
  { name := "Child", table := "a_child", pkColumn := "\"id\"",
    fields := [⟨"id", "AutoField", [("primary_key", "true")], none⟩,
               ⟨"p", "ForeignKey", [], some "a.Parent"⟩],
    uniqueTogether := [], utApplied := true, indexTogether := [], indexes := [],
    constraints := [], comment := "null", tablespace := "null" }

/-- F46 (repaired): referencing `pk.name` names a column that does not exist as soon as the primary
key's column differs from its field name -/
theorem C01_cex_fk_references_field_name :
    freshFks sqliteEnv (fun n => if n == "a.Parent" then some pkColModel else none) childModel
      = [⟨"p_id", "a_parent", "base_id"⟩] ∧
    rebuiltFks "name" sqliteEnv (fun n => if n == "a.Parent" then some pkColModel else none) childModel
      = [⟨"p_id", "a_parent", "base"⟩] := by
  decide

/-- non-vacuity of `C01_partial_rebuild_plain` -/
example : plainModel { utModel with uniqueTogether := [] } = true := by decide

/-- **frame, signature side**: a model-local mutation leaves every other model of the app —
and hence its fresh table — exactly as it was -/
theorem C01_frame_other_models (e : Env) (mu : Mutation) (a a' : AppSig) (n : String)
    (hother : modelName mu ≠ n) (h : applyLocal e mu a = .ok a') : a'.getModel n = a.getModel n := by
  unfold applyLocal at h
  cases hl : simModelLocal e mu with
  | none => simp [hl] at h
  | some mf =>
    obtain ⟨model, f⟩ := mf
    simp only [hl] at h
    have hm : model = modelName mu := by
      cases mu <;> simp [simModelLocal] at hl <;> simp [modelName, hl.1]
    cases hg : a.getModel model with
    | none => simp [hg] at h
    | some m =>
      simp only [hg] at h
      cases hf : f m with
      | error err => simp [hf] at h
      | ok m' =>
        simp only [hf] at h
        injection h with h; subst h
        have hn : m'.name = model := by
          rw [local_name e mu model f hl m m' hf]; exact (getModel_mem hg).2
        exact getModel_putModel_other a m' n (by rw [hn, hm]; exact hother)

/-- **frame, other apps**: replacing the evolved app leaves every app with another id untouched -/
theorem C01_frame_other_apps (p : ProjectSig) (a' b : AppSig) (hb : b ∈ p.apps) (hid : b.id ≠ a'.id) :
    b ∈ (p.putApp a').apps := mem_putApp_other hb hid

/-! ## the index bookkeeping the SQL generation consults (`DatabaseState`, Sql/DbState.lean) -/

open DEvo.Sql in
/-- an index that was registered is found by its columns: the generator will not create it a second time -/
theorem C01_state_find_after_add (s s' : DbState) (t name : String) (cols : List String) (u : Bool)
    (h : addIndex s t name cols u = .ok s') :
    ∃ ix, findIndex s' t cols u = some ix ∧ ix.cols = cols ∧ ix.unique = u := find_after_add s s' t name cols u h

open DEvo.Sql in
/-- an index that was removed from the bookkeeping is no longer known by its name ... -/
theorem C01_state_removed_index_is_gone (s s' : DbState) (t name : String) (u : Bool)
    (h : removeIndex s t name u = .ok s') : getIndex s' t name u = none := removed_is_gone s s' t name u h

open DEvo.Sql in
/-- ... nor found by its columns, unless another index of that kind covers the same columns: a later
mutation of the same run that needs such an index will create it -/
theorem C01_state_remove_then_find (s s' : DbState) (t name : String) (cols : List String) (u : Bool) (tb : Tbl)
    (ht : getTbl s t = some tb) (hw : tb.WF) (h : removeIndex s t name u = .ok s')
    (honly : ∀ ix ∈ tb.dict u, ix.cols = cols → ix.name = name) :
    findIndex s' t cols u = none := remove_then_find s s' t name cols u tb ht hw h honly

open DEvo.Sql in
/-- every index sits in the dictionary of its kind, in every state reached by registering and removing -/
theorem C01_state_wf_step (s s' : DbState) (t name : String) (cols : List String) (u : Bool) (hw : WFState s) :
    (addIndex s t name cols u = .ok s' → WFState s') ∧ (removeIndex s t name u = .ok s' → WFState s') :=
  ⟨wf_addIndex s s' t name cols u hw, wf_removeIndex s s' t name u hw⟩

open DEvo.Sql in
/-- the hypotheses are satisfiable, and the stale-record situation they exclude is real: with the record
left in place (an index dropped by bare SQL) the lookup still finds it -/
example :
    let s0 : DbState := addTable [] "vapp_book"
    (do let s1 ← addIndex s0 "vapp_book" "vapp_book_ty_idx" ["title", "year"] false
        let s2 ← removeIndex s1 "vapp_book" "vapp_book_ty_idx" false
        pure (findIndex s1 "vapp_book" ["title", "year"] false, findIndex s2 "vapp_book" ["title", "year"] false))
      = (.ok (some ⟨"vapp_book_ty_idx", ["title", "year"], false⟩, none) : Except StErr _) := by decide

end DEvo.Props.C01
