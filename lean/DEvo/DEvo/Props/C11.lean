import DEvo.Mut.Refs
import DEvo.Mut.Steps
import DEvo.Generated.Tables
import DEvo.Mut.Env

/-! # C11 — renames and deletions keep every cross-reference consistent

Invariant `RefsOK deleted p`: every `related_model` recorded in the signature names a model
that exists under its current app label and name, or one that was explicitly deleted.
Property statements only; helper lemmas live in `DEvo/Mut/Refs.lean`. -/

namespace DEvo.Props.C11
open DEvo.Sig DEvo.Mut

/-- putting back a same-named model whose relations are a subset of the old model's relations
preserves the invariant -/
theorem refsOK_putModel {D : List String} {p : ProjectSig} (hu : UniqueApps p) {a : AppSig}
    {m m' : ModelSig} (ha : a ∈ p.apps) (hm : m ∈ a.models) (hname : m'.name = m.name)
    (hsub : ∀ g ∈ m'.fields, ∀ r, g.related = some r → ∃ g0 ∈ m.fields, g0.related = some r)
    (h : RefsOK D p) : RefsOK D (p.putApp (a.putModel m')) := by
  intro b hb x hx f hf r hr
  have lift : RefExists p r ∨ r ∈ D → RefExists (p.putApp (a.putModel m')) r ∨ r ∈ D := by
    intro h'
    rcases h' with h' | h'
    · exact Or.inl (refExists_putModel hu ha hm hname h')
    · exact Or.inr h'
  rcases mem_putApp hb with ⟨hbe, _⟩ | ⟨hb', _⟩
  · subst hbe
    rcases mem_putModel hx with ⟨hxe, _⟩ | ⟨hx', _⟩
    · subst hxe
      obtain ⟨g0, hg0, hr0⟩ := hsub f hf r hr
      exact lift (h a ha m hm g0 hg0 r hr0)
    · exact lift (h a ha x hx' f hf r hr)
  · exact lift (h b hb' x hx f hf r hr)

/-- **ChangeField, DeleteField, RenameField and ChangeMeta never create a dangling reference**:
for every signature with unique keys, every model and every such mutation that the simulation
accepts, the invariant is preserved (the relation targets of the new model are a subset of the
old model's). -/
theorem C11_modelLocal_preserves (e : Env) (fl : Flags) (c : Ctx) (D : List String)
    (mu : Mutation) (p p' : ProjectSig) (c' : Ctx) (hu : UniqueApps p)
    (hkind : match mu with
      | .changeField .. => True | .deleteField .. => True | .renameField .. => True
      | .changeMeta .. => True | _ => False)
    (hsim : simulate e fl c mu p = .ok (p', c')) (h : RefsOK D p) : RefsOK D p' := by
  -- common skeleton: locate the model, apply the model-local function, put it back
  have key : ∀ (model : String) (f : ModelSig → Except SimErr ModelSig),
      simModelLocal e mu = some (model, f) →
      (∀ m m', f m = .ok m' → m'.name = m.name ∧
        ∀ g ∈ m'.fields, ∀ r, g.related = some r → ∃ g0 ∈ m.fields, g0.related = some r) →
      RefsOK D p' := by
    intro model f hloc hf
    unfold simulate at hsim
    simp only [hloc] at hsim
    cases hg : getModelSig c p model with
    | error err => simp [hg, bind, Except.bind] at hsim
    | ok am =>
      obtain ⟨a, m⟩ := am
      simp only [hg, bind, Except.bind] at hsim
      cases hfm : f m with
      | error err => simp [hfm] at hsim
      | ok m' =>
        simp only [hfm, pure, Except.pure] at hsim
        injection hsim with hsim
        injection hsim with hp hc
        subst hp
        obtain ⟨ha, hm, _⟩ := getModelSig_mem hg
        obtain ⟨hn, hs⟩ := hf m m' hfm
        exact refsOK_putModel hu ha hm hn hs h
  cases mu with
  | changeField model field ftype initial attrs =>
    apply key model (simChangeField e field ftype initial attrs) rfl
    intro m m' hfm
    unfold simChangeField at hfm
    split at hfm
    · cases hfm
    · rename_i f hgf
      have hfmem := (getField_mem hgf).1
      split at hfm
      · cases hfm
      · injection hfm with hfm
        subst hfm
        refine ⟨rfl, ?_⟩
        intro g hg r hr
        rcases mem_setFieldL hg with hge | hgm
        · subst hge; exact ⟨f, hfmem, hr⟩
        · exact ⟨g, hgm, hr⟩
  | deleteField model field =>
    apply key model (simDeleteField e field) rfl
    intro m m' hfm
    unfold simDeleteField at hfm
    split at hfm
    · cases hfm
    · split at hfm
      · cases hfm
      · injection hfm with hfm
        subst hfm
        refine ⟨rfl, ?_⟩
        intro g hg r hr
        simp only [ModelSig.removeField, List.mem_filter] at hg
        exact ⟨g, hg.1, hr⟩
  | renameField model old new dbc dbt =>
    apply key model (simRenameField old new dbc dbt) rfl
    intro m m' hfm
    unfold simRenameField at hfm
    split at hfm
    · cases hfm
    · rename_i f hgf
      have hfmem := (getField_mem hgf).1
      injection hfm with hfm
      subst hfm
      refine ⟨rfl, ?_⟩
      intro g hg r hr
      rcases mem_setFieldL hg with hge | hgm
      · subst hge; exact ⟨f, hfmem, hr⟩
      · simp only [ModelSig.removeField, List.mem_filter] at hgm
        exact ⟨g, hgm.1, hr⟩
  | changeMeta model prop v =>
    apply key model (simChangeMeta e prop v) rfl
    intro m m' hfm
    unfold simChangeMeta at hfm
    split at hfm
    · cases hfm
    · split at hfm <;> first
        | (injection hfm with hfm; subst hfm; exact ⟨rfl, fun g hg r hr => ⟨g, hg, hr⟩⟩)
        | cases hfm
  | _ => exact absurd hkind (by simp)

/-! ## RenameModel / DeleteModel -/

theorem refExists_rewriteRefs {p : ProjectSig} {o n r : String} (h : RefExists p r) :
    RefExists (rewriteRefs p o n) r := by
  obtain ⟨a, ha, m, hm, e⟩ := h
  refine ⟨_, List.mem_map.mpr ⟨a, ha, rfl⟩, _, List.mem_map.mpr ⟨m, hm, rfl⟩, ?_⟩
  rw [e]; rfl

theorem mem_rewriteRefs {p : ProjectSig} {o n : String} {b : AppSig} {x : ModelSig} {f : FieldSig}
    (hb : b ∈ (rewriteRefs p o n).apps) (hx : x ∈ b.models) (hf : f ∈ x.fields) :
    ∃ b0 ∈ p.apps, ∃ x0 ∈ b0.models, ∃ f0 ∈ x0.fields,
      f.related = (if f0.related = some o then some n else f0.related) := by
  simp only [rewriteRefs, List.mem_map] at hb
  obtain ⟨b0, hb0, e⟩ := hb
  subst e
  simp only [List.mem_map] at hx
  obtain ⟨x0, hx0, e⟩ := hx
  subst e
  simp only [List.mem_map] at hf
  obtain ⟨f0, hf0, e⟩ := hf
  subst e
  refine ⟨b0, hb0, x0, hx0, f0, hf0, ?_⟩
  by_cases h : f0.related = some o
  · simp [h]
  · simp [h]

/-- **RenameModel rewrites every reference**: for every signature with unique keys in which
the app is found under its own label, after an accepted `RenameModel(old, new)` every relation
still names an existing model (references to `app.old` now say `app.new`; models whose names
merely share a prefix with `old` are untouched because the comparison is on the whole string). -/
theorem C11_renameModel_preserves (e : Env) (fl : Flags) (c : Ctx) (D : List String)
    (old new table : String) (p p' : ProjectSig) (c' : Ctx) (hu : UniqueApps p)
    (hown : ∀ a, getAppSig c p = .ok a → a.id = c.appLabel)
    (hsim : simulate e fl c (.renameModel old new table) p = .ok (p', c'))
    (h : RefsOK D p) : RefsOK D p' := by
  unfold simulate at hsim
  simp only [simModelLocal] at hsim
  cases hg : getModelSig c p old with
  | error err => simp [hg, bind, Except.bind] at hsim
  | ok am =>
    obtain ⟨a, m⟩ := am
    simp only [hg, bind, Except.bind, pure, Except.pure] at hsim
    injection hsim with hsim
    injection hsim with hp hc
    subst hp
    obtain ⟨ha, hm, hmn⟩ := getModelSig_mem hg
    have haid : a.id = c.appLabel := by
      apply hown
      unfold getModelSig at hg
      cases hga : getAppSig c p with
      | error err => simp [hga, bind, Except.bind] at hg
      | ok a2 =>
        simp only [hga, bind, Except.bind] at hg
        split at hg
        · injection hg with hg; injection hg with h1 h2; rw [h1]
        · cases hg
    -- abbreviations
    let m' : ModelSig := { m with name := new, table := table }
    let a' : AppSig := (a.removeModel old).addModel m'
    have ha'id : a'.id = a.id := rfl
    have hm'in : m' ∈ a'.models := mem_setModelL_self _ _
    have ha'in : a' ∈ (p.putApp a').apps := mem_putApp_of ha ha'id.symm
    -- the renamed model is reachable under the new reference
    have hnew : RefExists (rewriteRefs (p.putApp a') (c.appLabel ++ "." ++ old) (c.appLabel ++ "." ++ new))
        (c.appLabel ++ "." ++ new) :=
      refExists_rewriteRefs ⟨a', ha'in, m', hm'in, by simp [refOf, ha'id, haid, m']⟩
    -- every other existing reference survives
    have hkeep : ∀ r, RefExists p r → r ≠ c.appLabel ++ "." ++ old →
        RefExists (rewriteRefs (p.putApp a') (c.appLabel ++ "." ++ old) (c.appLabel ++ "." ++ new)) r := by
      intro r hr hne
      apply refExists_rewriteRefs
      obtain ⟨b1, hb1, x1, hx1, er⟩ := hr
      by_cases hid : b1.id = a.id
      · have : b1 = a := unique_app hu hb1 ha hid
        subst this
        have hx1n : x1.name ≠ old := by
          intro hh; apply hne; rw [er]; simp [refOf, hh, haid]
        by_cases hx1new : x1.name = new
        · exact ⟨a', ha'in, m', hm'in, by rw [er]; simp [refOf, hx1new, m', ha'id]⟩
        · refine ⟨a', ha'in, x1, ?_, by rw [er]; simp [refOf, ha'id]⟩
          apply mem_setModelL_other
          · simp only [AppSig.removeModel, List.mem_filter]
            exact ⟨hx1, by simpa using hx1n⟩
          · simpa [m'] using hx1new
      · exact ⟨b1, mem_putApp_other hb1 (by simpa [ha'id] using hid), x1, hx1, er⟩
    -- main argument
    intro b hb x hx f hf r hr
    obtain ⟨b0, hb0, x0, hx0, f0, hf0, hrel⟩ := mem_rewriteRefs hb hx hf
    -- f0 is a field of some model of the original project
    have horig : ∃ bo ∈ p.apps, ∃ xo ∈ bo.models, f0 ∈ xo.fields := by
      rcases mem_putApp hb0 with ⟨hbe, _⟩ | ⟨hb0', _⟩
      · subst hbe
        rcases mem_setModelL hx0 with hxe | hx0'
        · subst hxe; exact ⟨a, ha, m, hm, hf0⟩
        · simp only [AppSig.removeModel, List.mem_filter] at hx0'
          exact ⟨a, ha, x0, hx0'.1, hf0⟩
      · exact ⟨b0, hb0', x0, hx0, hf0⟩
    obtain ⟨bo, hbo, xo, hxo, hfo⟩ := horig
    by_cases hold : f0.related = some (c.appLabel ++ "." ++ old)
    · simp only [hold, if_true] at hrel
      rw [hr] at hrel
      injection hrel with hrel
      subst hrel
      exact Or.inl hnew
    · simp only [hold, if_false] at hrel
      rw [hr] at hrel
      have hr0 : f0.related = some r := hrel.symm
      rcases h bo hbo xo hxo f0 hfo r hr0 with hex | hd
      · refine Or.inl (hkeep r hex ?_)
        intro heq; apply hold; rw [hr0, heq]
      · exact Or.inr hd

/-- **DeleteModel**: afterwards every relation names an existing model or the model that was
explicitly deleted (the property's exemption). -/
theorem C11_deleteModel_preserves (e : Env) (fl : Flags) (c : Ctx) (D : List String)
    (model : String) (p p' : ProjectSig) (c' : Ctx) (hu : UniqueApps p)
    (hown : ∀ a, getAppSig c p = .ok a → a.id = c.appLabel)
    (hsim : simulate e fl c (.deleteModel model) p = .ok (p', c'))
    (h : RefsOK D p) : RefsOK ((c.appLabel ++ "." ++ model) :: D) p' := by
  unfold simulate at hsim
  simp only [simModelLocal] at hsim
  cases hg : getModelSig c p model with
  | error err => simp [hg, bind, Except.bind] at hsim
  | ok am =>
    obtain ⟨a, m⟩ := am
    simp only [hg, bind, Except.bind, pure, Except.pure] at hsim
    injection hsim with hsim
    injection hsim with hp hc
    subst hp
    obtain ⟨ha, hm, hmn⟩ := getModelSig_mem hg
    have haid : a.id = c.appLabel := by
      apply hown
      unfold getModelSig at hg
      cases hga : getAppSig c p with
      | error err => simp [hga, bind, Except.bind] at hg
      | ok a2 =>
        simp only [hga, bind, Except.bind] at hg
        split at hg
        · injection hg with hg; injection hg with h1 h2; rw [h1]
        · cases hg
    intro b hb x hx f hf r hr
    have horig : ∃ bo ∈ p.apps, ∃ xo ∈ bo.models, f ∈ xo.fields := by
      rcases mem_putApp hb with ⟨hbe, _⟩ | ⟨hb', _⟩
      · subst hbe
        simp only [AppSig.removeModel, List.mem_filter] at hx
        exact ⟨a, ha, x, hx.1, hf⟩
      · exact ⟨b, hb', x, hx, hf⟩
    obtain ⟨bo, hbo, xo, hxo, hfo⟩ := horig
    rcases h bo hbo xo hxo f hfo r hr with hex | hd
    · obtain ⟨b1, hb1, x1, hx1, er⟩ := hex
      by_cases hid : b1.id = a.id
      · have : b1 = a := unique_app hu hb1 ha hid
        subst this
        by_cases hx1n : x1.name = model
        · exact Or.inr (by rw [er]; simp [refOf, hx1n, haid])
        · refine Or.inl ⟨b1.removeModel model, mem_putApp_of ha rfl, x1, ?_, by rw [er]; rfl⟩
          simp only [AppSig.removeModel, List.mem_filter]
          exact ⟨hx1, by simpa using hx1n⟩
      · exact Or.inl ⟨b1, mem_putApp_other hb1 (by intro h'; exact hid h'), x1, hx1, er⟩
    · exact Or.inr (List.mem_cons_of_mem _ hd)

/-! ## RenameAppLabel (finding F12) -/

def sigF12 : ProjectSig :=
  { apps := [
    { id := "a", legacy := "a", upgradeMethod := some "evolutions", appliedMigrations := none,
      models := [{ name := "Book", table := "a_book", pkColumn := "\"id\"", fields := [],
                   uniqueTogether := [], utApplied := true, indexTogether := [], indexes := [],
                   constraints := [], comment := "null", tablespace := "null" }] },
    { id := "b", legacy := "b", upgradeMethod := some "evolutions", appliedMigrations := none,
      models := [{ name := "Page", table := "b_page", pkColumn := "\"id\"",
                   fields := [⟨"book", "ForeignKey", [], some "a.Book"⟩],
                   uniqueTogether := [], utApplied := true, indexTogether := [], indexes := [],
                   constraints := [], comment := "null", tablespace := "null" }] }] }

def relatedOf (p : ProjectSig) : List String :=
  p.apps.flatMap (fun a => a.models.flatMap (fun m => m.fields.filterMap (fun f => f.related)))

/-- F12 witness 1 (today's code, `fixed = false`): after `RenameAppLabel('a', 'lib')` the
foreign key in app `b` still says `a.Book`, but no app `a` exists any more. -/
theorem C11_cex_renameAppLabel_not_rewritten :
    (simulate sqliteEnv {} ⟨"a", "a", true⟩ (.renameAppLabel "a" "lib" none none) sigF12).toOption.map
      (fun r => (relatedOf r.1, r.1.apps.map (·.id))) = some (["a.Book"], ["b", "lib"]) := by
  decide

/-- F12 witness 2: with a one-character label equal to the first character of the *model* name
the reference is corrupted (`B.Book` style: here label `B`, model `Book` → `lib.o`). -/
theorem C11_cex_renameAppLabel_corrupts :
    renameLabelRef false "B" "lib" ["Book"] "B.Book" = .ok "lib.o" := by decide

/-- the repaired rewrite (`fixed = true`) maps the same reference to the renamed app -/
theorem C11_renameAppLabel_fixed_witness :
    (simulate sqliteEnv { renameAppLabelFixed := true } ⟨"a", "a", true⟩
      (.renameAppLabel "a" "lib" none none) sigF12).toOption.map
      (fun r => (relatedOf r.1, r.1.apps.map (·.id))) = some (["lib.Book"], ["b", "lib"]) := by
  decide

/-- repaired rewrite, every reference: a reference into the old label is moved to the new
label with the model name intact, any other reference is untouched -/
theorem C11_renameLabelRef_fixed (old new lbl mdl : String) (moved : List String) (rel : String)
    (h : splitDot rel = some (lbl, mdl)) :
    renameLabelRef true old new moved rel
      = .ok (if lbl == old && moved.contains mdl then new ++ "." ++ mdl else rel) := by
  unfold renameLabelRef
  simp only [h, if_true]
  split <;> rfl

/-- the reference rewrite of `RenameAppLabel.simulate` in the current source is the repaired one
(regenerated on every run; finding F12 repaired) -/
theorem C11_source_renameAppLabel_fixed : DEvo.Generated.renameAppLabelFixed = true := by decide

/-! ## which app a label names -/

/-- **an exact app id takes precedence over a legacy label**: whenever some app of the project has the id `x`,
`getApp p x` is an app with id `x` - never another app that merely used to carry that label - wherever the two
stand in the project -/
theorem C11_getApp_id_first (p : ProjectSig) (x : String) (a : AppSig) (ha : a ∈ p.apps) (hid : a.id = x) :
    ∃ b, p.getApp x = some b ∧ b.id = x := by
  unfold ProjectSig.getApp
  cases hf : p.apps.find? (fun a => a.id == x) with
  | some b =>
    refine ⟨b, rfl, ?_⟩
    have := List.find?_some hf
    simpa using this
  | none =>
    exfalso
    have := List.find?_eq_none.mp hf a ha
    simp [hid] at this

/-- the source looks the id up first (read by the translator on every run) -/
theorem C11_source_get_app_id_first : DEvo.Generated.getAppIdFirst = true := by decide

/-! ## whole sequences -/

/-- the mutation kinds the sequence theorem covers -/
def seqKind : Mutation → Bool
  | .changeField .. => true | .deleteField .. => true | .renameField .. => true
  | .changeMeta .. => true | .renameModel .. => true | .deleteModel .. => true
  | _ => false

def ids (p : ProjectSig) : List String := p.apps.map (·.id)

theorem ids_putApp (p : ProjectSig) (a : AppSig) : ids (p.putApp a) = ids p := by
  unfold ids ProjectSig.putApp
  rw [List.map_map]
  apply List.map_congr_left
  intro x _
  simp only [Function.comp]
  by_cases hx : (x.id == a.id) = true
  · simp only [hx, if_true]; exact (by simpa using hx : x.id = a.id).symm
  · simp [hx]

theorem ids_rewriteRefs (p : ProjectSig) (o n : String) : ids (rewriteRefs p o n) = ids p := by
  unfold ids rewriteRefs
  simp [List.map_map, Function.comp]

theorem simulate_ids (e : Env) (fl : Flags) (c c' : Ctx) (mu : Mutation) (p p' : ProjectSig)
    (hk : seqKind mu = true) (h : simulate e fl c mu p = .ok (p', c')) : ids p' = ids p := by
  unfold simulate at h
  split at h
  · simp only [bind, Except.bind, pure, Except.pure] at h
    split at h
    · cases h
    · split at h
      · cases h
      · simp only [Except.ok.injEq, Prod.mk.injEq] at h
        rw [← h.1, ids_putApp]
  · cases mu <;> simp only [seqKind] at hk <;> simp only [bind, Except.bind, pure, Except.pure] at h
    all_goals first
      | (cases hk; done)
      | (cases h; done)
      | (split at h
         · cases h
         · simp only [Except.ok.injEq, Prod.mk.injEq] at h
           rw [← h.1]
           first | rw [ids_putApp] | (rw [ids_rewriteRefs, ids_putApp]))

theorem uniqueApps_of_ids {p q : ProjectSig} (h : ids q = ids p) (hu : UniqueApps p) : UniqueApps q := by
  unfold UniqueApps at *
  have hp : (ids p).Pairwise (· ≠ ·) := by unfold ids; rw [List.pairwise_map]; exact hu
  rw [← h] at hp
  unfold ids at hp
  rw [List.pairwise_map] at hp
  exact hp

/-- the app is in the project under the label the simulation runs with -/
def HasOwn (c : Ctx) (p : ProjectSig) : Prop := c.appLabel ∈ ids p

theorem own_of_hasOwn {c : Ctx} {p : ProjectSig} (h : HasOwn c p) :
    ∀ a, getAppSig c p = .ok a → a.id = c.appLabel := by
  intro a ha
  unfold HasOwn ids at h
  obtain ⟨b, hb, hbid⟩ := List.mem_map.mp h
  unfold getAppSig ProjectSig.getApp at ha
  cases hf : p.apps.find? (fun x => x.id == c.appLabel) with
  | none =>
    have := List.find?_eq_none.mp hf b hb
    simp [hbid] at this
  | some x =>
    simp only [hf, Except.ok.injEq] at ha
    rw [← ha]
    simpa using List.find?_some hf

theorem refsOK_mono {D D' : List String} {p : ProjectSig} (hsub : ∀ r ∈ D, r ∈ D') (h : RefsOK D p) : RefsOK D' p := by
  intro a ha m hm f hf r hr
  rcases h a ha m hm f hf r hr with h1 | h1
  · exact Or.inl h1
  · exact Or.inr (hsub r h1)

/-- the references the sequence deletes explicitly, newest first, in front of those deleted before -/
def deletedAcc (label : String) : List String → List Mutation → List String
  | D, [] => D
  | D, .deleteModel m :: rest => deletedAcc label ((label ++ "." ++ m) :: D) rest
  | D, _ :: rest => deletedAcc label D rest

/-- **any sequence** of field changes, field deletions, field renames, Meta changes, model renames and model
deletions that the simulation accepts keeps every relation pointing at an existing model or at one of the models
the sequence deleted explicitly - for every signature with unique app ids in which the app is present under its
label, and sequences of every length -/
theorem C11_sequence_preserves (e : Env) (fl : Flags) (c c' : Ctx) (ms : List Mutation) (D : List String)
    (p p' : ProjectSig) (hk : ∀ m ∈ ms, seqKind m = true) (hu : UniqueApps p) (hown : HasOwn c p)
    (hsim : simulateAll e fl c ms p = .ok (p', c')) (h : RefsOK D p) :
    RefsOK (deletedAcc c.appLabel D ms) p' := by
  induction ms generalizing p D with
  | nil =>
    simp only [simulateAll, Except.ok.injEq, Prod.mk.injEq] at hsim
    rw [← hsim.1]; exact h
  | cons m rest ih =>
    simp only [simulateAll, bind, Except.bind] at hsim
    cases hs : simulate e fl c m p with
    | error err => rw [hs] at hsim; cases hsim
    | ok r =>
      rw [hs] at hsim
      have hkm : seqKind m = true := hk m (by simp)
      have hids : ids r.1 = ids p := simulate_ids e fl c r.2 m p r.1 hkm (by rw [hs])
      have hc : r.2 = c := by
        apply simulate_ctx e fl c r.2 m p r.1 _ (by rw [hs])
        cases m <;> simp [seqKind] at hkm <;> rfl
      have hu' : UniqueApps r.1 := uniqueApps_of_ids hids hu
      have hown' : HasOwn c r.1 := by unfold HasOwn; rw [hids]; exact hown
      simp only [hc] at hsim
      have hk' : ∀ m' ∈ rest, seqKind m' = true := fun m' h' => hk m' (by simp [h'])
      have step : RefsOK (deletedAcc c.appLabel D [m]) r.1 := by
        cases m with
        | changeField model field ftype initial attrs =>
          exact C11_modelLocal_preserves e fl c D _ p r.1 r.2 hu trivial (by rw [hs]) h
        | deleteField model field =>
          exact C11_modelLocal_preserves e fl c D _ p r.1 r.2 hu trivial (by rw [hs]) h
        | renameField model old new dc dt =>
          exact C11_modelLocal_preserves e fl c D _ p r.1 r.2 hu trivial (by rw [hs]) h
        | changeMeta model prop v =>
          exact C11_modelLocal_preserves e fl c D _ p r.1 r.2 hu trivial (by rw [hs]) h
        | renameModel old new t =>
          exact C11_renameModel_preserves e fl c D old new t p r.1 r.2 hu (own_of_hasOwn hown) (by rw [hs]) h
        | deleteModel model =>
          exact C11_deleteModel_preserves e fl c D model p r.1 r.2 hu (own_of_hasOwn hown) (by rw [hs]) h
        | _ => simp [seqKind] at hkm
      have := ih (deletedAcc c.appLabel D [m]) r.1 hk' hu' hown' hsim step
      cases m <;> simpa [deletedAcc] using this


/-- the premises of `C11_sequence_preserves` are met by a rename followed by the deletion of the renamed model, in a
project where another app refers to it -/
example : (simulateAll sqliteEnv {} ⟨"a", "a", true⟩ [.renameModel "Book" "Tome" "a_book", .deleteModel "Tome"]
      sigF12).toOption.isSome = true ∧
    (∀ m ∈ [Mutation.renameModel "Book" "Tome" "a_book", .deleteModel "Tome"], seqKind m = true) ∧
    ids sigF12 = ["a", "b"] ∧
    deletedAcc "a" [] [.renameModel "Book" "Tome" "a_book", .deleteModel "Tome"] = ["a.Tome"] := by
  decide

/-- the model's `RenameModel` re-points EVERY field of every model of every app whose reference names
the renamed model, to `<app of the renamed model>.<new name>`; so does the source: three nested loops
over all apps, models and fields, one test on the reference itself (not on the field's class), no
early exit, both names built from the label of the app being evolved (read by the translator on every
run) -/
theorem C11_source_rename_model_walk : DEvo.Generated.renameModelRefWalk =
    ["old_related_model = '%s.%s' % (simulation.app_label, self.old_model_name)",
     "new_related_model = '%s.%s' % (simulation.app_label, self.new_model_name)",
     "for cur_app_sig in simulation.project_sig.app_sigs",
     "  for cur_model_sig in cur_app_sig.model_sigs",
     "    for cur_field_sig in cur_model_sig.field_sigs",
     "      if cur_field_sig.related_model == old_related_model",
     "        cur_field_sig.related_model = new_related_model"] := by decide

end DEvo.Props.C11
