import DEvo.Props.C08
import DEvo.Mut.Steps
import DEvo.Mut.Env
import DEvo.Generated.Tables
import DEvo.Sql.DbState

/-! # C04 — all upgrade paths converge: fresh install, stepwise, direct

The part of the statement that lives in the bookkeeping (recorded evolution labels, "nothing
required" afterwards) is proved here over the run-history model of C08; that schema, data and
stored signature converge is what C01/C02/C03 are about and is observed by the path oracle. -/

namespace DEvo.Props.C04
open DEvo.Run DEvo.Props.C08 DEvo.Mut DEvo.Sig

def labelSet (s : HState) (app : String) : List String :=
  (s.recorded.filter (fun r => r.app == app)).map (·.label)

/-- after a complete run of an app, every label of its sequence is recorded — whether the app
was installed fresh (whole sequence recorded, nothing executed) or upgraded from any earlier
state (the unapplied ones are applied and recorded) -/
theorem C04_all_recorded (s : HState) (a : AppCfg) (l : String) (hl : l ∈ a.sequence) :
    isRecorded (stepH s (.run [a] true)) a.label l = true := by
  rw [isRecorded_iff]
  unfold keys stepH
  simp only [List.map_append, List.mem_append]
  by_cases hrec : (a.label, l) ∈ keys s
  · exact Or.inl hrec
  · right
    simp only [newRecords, List.flatMap_cons, List.flatMap_nil, List.append_nil, List.map_map, List.mem_map,
      Function.comp]
    refine ⟨l, ?_, rfl⟩
    unfold taskPlan
    split
    · simp only [unapplied, List.mem_filter, Bool.not_eq_true']
      refine ⟨hl, ?_⟩
      cases h : isRecorded s a.label l with
      | false => rfl
      | true => exact absurd ((isRecorded_iff s a.label l).mp h) hrec
    · exact hl

/-- **running the upgrade again is a no-op**: once every label of the sequence is recorded and
the app has a stored signature, a further run plans nothing, executes nothing and records
nothing -/
theorem C04_second_run_noop (s : HState) (a : AppCfg) (hknown : s.known.contains a.label = true)
    (hall : ∀ l ∈ a.sequence, isRecorded s a.label l = true) :
    taskPlan s a = ([], []) ∧ newRecords s [a] = [] ∧ executed s [a] = [] := by
  have hun : unapplied s a = [] := by
    unfold unapplied
    rw [List.filter_eq_nil_iff]
    intro l hl
    simp [hall l hl]
  have hp : taskPlan s a = ([], []) := by
    unfold taskPlan; rw [if_pos hknown, hun]
  refine ⟨hp, ?_, ?_⟩
  · simp [newRecords, hp]
  · simp [executed, hp]

/-- the recorded label set after a complete run does not depend on where the upgrade started:
it is the old set plus the labels of the sequence that were missing -/
theorem C04_paths_converge (s1 s2 : HState) (a : AppCfg)
    (l : String) (hl : l ∈ a.sequence) :
    isRecorded (stepH s1 (.run [a] true)) a.label l = isRecorded (stepH s2 (.run [a] true)) a.label l := by
  rw [C04_all_recorded s1 a l hl, C04_all_recorded s2 a l hl]

/-- one release at a time: every evolution is simulated by its own run, which starts from the
app's configured label again -/
def stepwise (e : Env) (fl : Flags) (c : Ctx) : List (List Mutation) → ProjectSig → Except SimErr ProjectSig
  | [], p => .ok p
  | ev :: rest, p =>
    match simulateAll e fl c ev p with
    | .error err => .error err
    | .ok r => stepwise e fl c rest r.1

/-- all pending evolutions in one run -/
def direct (e : Env) (fl : Flags) (c : Ctx) (evs : List (List Mutation)) (p : ProjectSig) : Except SimErr ProjectSig :=
  match simulateAll e fl c evs.flatten p with
  | .error err => .error err
  | .ok r => .ok r.1

/-- **the signature reached does not depend on how the pending evolutions are split over runs**:
simulating them one release at a time, each run starting again from the app's configured
label, gives the same project signature (or the same error) as simulating all of them in one
run — for every signature, every list of evolutions and every mutation kind, provided a
`RenameAppLabel` among them renames to the label the app is configured with -/
theorem C04_signature_stepwise_eq_direct (e : Env) (fl : Flags) (c : Ctx) (evs : List (List Mutation)) (p : ProjectSig)
    (hm : ∀ ev ∈ evs, ∀ m ∈ ev, keepsLabel c m = true) :
    stepwise e fl c evs p = direct e fl c evs p := by
  induction evs generalizing p with
  | nil => simp [stepwise, direct, simulateAll]
  | cons ev rest ih =>
    unfold direct
    simp only [stepwise, List.flatten_cons, simulateAll_append, bind, Except.bind]
    cases h : simulateAll e fl c ev p with
    | error err => rfl
    | ok r =>
      have hc := simulateAll_ctx e fl c r.2 ev p r.1 (hm ev (by simp)) (by rw [h])
      simp only [hc]
      rw [ih r.1 (fun ev' h' => hm ev' (by simp [h']))]
      rfl

/-- the theorem's premise is satisfiable by a history with a relabel in it -/
example : ∀ ev ∈ [[Mutation.renameAppLabel "old" "lib" none none], [Mutation.deleteModel "M"]],
    ∀ m ∈ ev, keepsLabel ⟨"lib", "old", true⟩ m = true := by decide

private def sigRelabel : ProjectSig :=
  ⟨[⟨"old", "old", some "evolutions", none,
     [⟨"M", "old_m", "\"id\"", [⟨"id", "AutoField", [("primary_key", "True")], none⟩], [], false, [], [], [], "None", "None"⟩]⟩]⟩

/-- and it is needed: when a `RenameAppLabel` moves the models to a label that is *not* the one
the runs start from, a later release no longer finds its app when it is run on its own, while
the single run (which carries the new label along) succeeds -/
theorem C04_cex_relabel_to_other_label :
    (stepwise sqliteEnv {} ⟨"old", "old", true⟩
        [[.renameAppLabel "old" "lib" none none], [.deleteModel "M"]] sigRelabel).toOption.isNone = true ∧
    (direct sqliteEnv {} ⟨"old", "old", true⟩
        [[.renameAppLabel "old" "lib" none none], [.deleteModel "M"]] sigRelabel).toOption.isSome = true := by
  decide

/-- direct and stepwise upgrades optimise different batches of the same definitions; both keep every
mutation the optimiser did not mark only if its set of removed mutations goes by identity
(`C03_filter_by_identity`), which is what the source says (read by the translator on every run) -/
theorem C04_source_hash_identity : DEvo.Generated.mutationHashById = true := by decide

/-! ## a direct upgrade runs several versions' Meta changes against ONE bookkeeping of indexes -/

open DEvo.Sql in
/-- an entry that one version drops and a later version adds again is created again in a direct upgrade,
like on every other path: once the drop has taken the index out of the bookkeeping, the later lookup by
columns finds nothing (`findIndex = none` is the condition under which CREATE INDEX is emitted), and
after the re-creation it is found -/
theorem C04_dropped_entry_is_recreated (s s1 s2 : DbState) (t name name' : String) (cols : List String) (u : Bool)
    (tb : Tbl) (ht : getTbl s t = some tb) (hw : tb.WF)
    (hdrop : removeIndex s t name u = .ok s1)
    (honly : ∀ ix ∈ tb.dict u, ix.cols = cols → ix.name = name)
    (hadd : addIndex s1 t name' cols u = .ok s2) :
    findIndex s1 t cols u = none ∧ ∃ ix, findIndex s2 t cols u = some ix ∧ ix.cols = cols :=
  ⟨remove_then_find s s1 t name cols u tb ht hw hdrop honly,
   let ⟨ix, h1, h2, _⟩ := find_after_add s1 s2 t name' cols u hadd; ⟨ix, h1, h2⟩⟩

/-- every drop in the unique_together / index_together changes goes through the bookkeeping (`remove_index`,
directly or inside `drop_index_by_name`), every creation registers (`add_index`, directly or inside
`create_unique_index`): the calls of the three functions, in source order (read by the translator on every run) -/
theorem C04_source_together_changes_keep_state : DEvo.Generated.togetherStateCalls =
    ["change_meta_unique_together: remove_index, get_drop_unique_constraint_sql, get_new_index_name, create_unique_index",
     "change_meta_index_together: drop_index_by_name, get_default_index_together_name, add_index",
     "drop_index_by_name: remove_index, get_drop_index_sql"] := by decide

end DEvo.Props.C04
