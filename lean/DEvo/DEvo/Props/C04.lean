import DEvo.Props.C08

/-! # C04 — all upgrade paths converge: fresh install, stepwise, direct

The part of the statement that lives in the bookkeeping (recorded evolution labels, "nothing
required" afterwards) is proved here over the run-history model of C08; that schema, data and
stored signature converge is what C01/C02/C03 are about and is observed by the path oracle. -/

namespace DEvo.Props.C04
open DEvo.Run DEvo.Props.C08

def labelSet (s : HState) (app : String) : List String :=
  (s.recorded.filter (fun r => r.app == app)).map (·.label)

/-- after a complete run of an app, every label of its sequence is recorded — whether the app
was installed fresh (whole sequence recorded, nothing executed) or upgraded from any earlier
state (the unapplied ones are applied and recorded) -/
theorem C04_all_recorded (s : HState) (a : AppCfg) (l : String) (hl : l ∈ a.sequence) :
    isRecorded (stepH s (.run [a] true)) a.label l = true := by
  rw [isRecorded_iff]
  unfold keys stepH
  simp only [List.map_append, List.mem_append]
  by_cases hrec : (a.label, l) ∈ keys s
  · exact Or.inl hrec
  · right
    simp only [newRecords, List.flatMap_cons, List.flatMap_nil, List.append_nil, List.map_map, List.mem_map,
      Function.comp]
    refine ⟨l, ?_, rfl⟩
    unfold taskPlan
    split
    · simp only [unapplied, List.mem_filter, Bool.not_eq_true']
      refine ⟨hl, ?_⟩
      cases h : isRecorded s a.label l with
      | false => rfl
      | true => exact absurd ((isRecorded_iff s a.label l).mp h) hrec
    · exact hl

/-- **running the upgrade again is a no-op**: once every label of the sequence is recorded and
the app has a stored signature, a further run plans nothing, executes nothing and records
nothing -/
theorem C04_second_run_noop (s : HState) (a : AppCfg) (hknown : s.known.contains a.label = true)
    (hall : ∀ l ∈ a.sequence, isRecorded s a.label l = true) :
    taskPlan s a = ([], []) ∧ newRecords s [a] = [] ∧ executed s [a] = [] := by
  have hun : unapplied s a = [] := by
    unfold unapplied
    rw [List.filter_eq_nil_iff]
    intro l hl
    simp [hall l hl]
  have hp : taskPlan s a = ([], []) := by
    unfold taskPlan; rw [if_pos hknown, hun]
  refine ⟨hp, ?_, ?_⟩
  · simp [newRecords, hp]
  · simp [executed, hp]

/-- the recorded label set after a complete run does not depend on where the upgrade started:
it is the old set plus the labels of the sequence that were missing -/
theorem C04_paths_converge (s1 s2 : HState) (a : AppCfg)
    (l : String) (hl : l ∈ a.sequence) :
    isRecorded (stepH s1 (.run [a] true)) a.label l = isRecorded (stepH s2 (.run [a] true)) a.label l := by
  rw [C04_all_recorded s1 a l hl, C04_all_recorded s2 a l hl]

end DEvo.Props.C04
