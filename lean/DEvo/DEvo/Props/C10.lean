import DEvo.Run.Migrations
import DEvo.Generated.Tables

/-! # C10 — handing an app over to Django migrations is clean and one-way -/

namespace DEvo.Props.C10
open DEvo.Run

/-- the migrations named as already covered are never executed -/
theorem C10_marked_not_executed (st : MigState) (s i : Nat) (hi : i < s) : i ∉ toExecute st s := by
  intro h
  simp only [toExecute, List.mem_filter, Bool.and_eq_true, Bool.not_eq_true'] at h
  have : (markApplied s).contains i = true := by simp [markApplied, hi]
  rw [this] at h; exact absurd h.2.2 (by simp)

/-- already recorded migrations are neither re-recorded nor re-executed -/
theorem C10_recorded_untouched (st : MigState) (s i : Nat) (hi : i ∈ st.recorded) :
    i ∉ extraApplied st s ∧ i ∉ toExecute st s := by
  have hc : st.recorded.contains i = true := by simpa using hi
  constructor
  · intro h; simp only [extraApplied, List.mem_filter, hc] at h; exact absurd h.2 (by simp)
  · intro h; simp only [toExecute, List.mem_filter, hc] at h; exact absurd h.2 (by simp)

/-- **every migration of the chain is accounted for exactly once**: it was recorded before, or
it is recorded now without being executed (named in `mark_applied`), or it is executed now —
and never two of these -/
theorem C10_partition (st : MigState) (s i : Nat) (hi : i < st.m) (hs : s ≤ st.m) :
    (i ∈ st.recorded ∧ i ∉ extraApplied st s ∧ i ∉ toExecute st s) ∨
    (i ∉ st.recorded ∧ i ∈ extraApplied st s ∧ i ∉ toExecute st s) ∨
    (i ∉ st.recorded ∧ i ∉ extraApplied st s ∧ i ∈ toExecute st s) := by
  by_cases hr : i ∈ st.recorded
  · exact Or.inl ⟨hr, C10_recorded_untouched st s i hr⟩
  · have hc : st.recorded.contains i = false := by simpa using hr
    by_cases hm : i < s
    · right; left
      refine ⟨hr, ?_, C10_marked_not_executed st s i hm⟩
      simp [extraApplied, markApplied, hm, hr]
    · right; right
      refine ⟨hr, ?_, ?_⟩
      · intro h; simp [extraApplied, markApplied] at h; exact hm h.1
      · simp [toExecute, markApplied, hi, hr, hm]

/-- nothing is recorded twice by the hand-over -/
theorem C10_no_duplicates (st : MigState) (s : Nat) (h : st.recorded.Nodup) :
    (runMig st s).recorded.Nodup := by
  unfold runMig
  simp only
  rw [List.nodup_append, List.nodup_append]
  have he : (extraApplied st s).Nodup := (List.nodup_range).filter _
  have ht : (toExecute st s).Nodup := (List.nodup_range).filter _
  refine ⟨⟨h, he, ?_⟩, ht, ?_⟩
  · intro a ha b hb hab
    subst hab
    exact (C10_recorded_untouched st s a ha).1 hb
  · intro a ha b hb hab
    subst hab
    rcases List.mem_append.mp ha with h1 | h1
    · exact (C10_recorded_untouched st s a h1).2 hb
    · simp only [extraApplied, markApplied, List.mem_filter, List.mem_range] at h1
      exact C10_marked_not_executed st s a h1.1 hb

/-- the remaining migrations are executed in chain (dependency) order -/
theorem C10_chain_order (st : MigState) (s : Nat) : (toExecute st s).Pairwise (· < ·) := by
  unfold toExecute
  exact (List.pairwise_lt_range).filter _

/-- afterwards every migration of the chain is recorded … -/
theorem C10_all_recorded (st : MigState) (s i : Nat) (hi : i < st.m) (hs : s ≤ st.m) :
    i ∈ (runMig st s).recorded := by
  unfold runMig
  simp only [List.mem_append]
  rcases C10_partition st s i hi hs with h | h | h
  · exact Or.inl (Or.inl h.1)
  · exact Or.inl (Or.inr h.2.1)
  · exact Or.inr h.2.2

/-- … so **a further run is a no-op**: nothing to mark, nothing to execute -/
theorem C10_second_run_noop (st : MigState) (s : Nat) (hs : s ≤ st.m) :
    extraApplied (runMig st s) s = [] ∧ toExecute (runMig st s) s = [] := by
  constructor
  · rw [List.eq_nil_iff_forall_not_mem]
    intro i hi
    have hlt : i < s := by simp [extraApplied, markApplied] at hi; exact hi.1
    have := C10_all_recorded st s i (Nat.lt_of_lt_of_le hlt hs) hs
    exact (C10_recorded_untouched (runMig st s) s i this).1 hi
  · rw [List.eq_nil_iff_forall_not_mem]
    intro i hi
    have hlt : i < st.m := by
      simp only [toExecute, List.mem_filter, List.mem_range] at hi; exact hi.1
    have := C10_all_recorded st s i hlt hs
    exact (C10_recorded_untouched (runMig st s) s i this).2 hi

/-- non-vacuity: chain of 3, first marked applied, nothing recorded before -/
example : runMig ⟨3, []⟩ 1 = ⟨3, [0, 1, 2]⟩ ∧ extraApplied ⟨3, []⟩ 1 = [0] ∧ toExecute ⟨3, []⟩ 1 = [1, 2] := by
  decide

/-! ## what the stored signature of an app lists -/

/-- the `applied_migrations` setter handed the rows of django_migrations: the names recorded for the app's LABEL -/
def signatureLists (appId : String) (rows : List (String × String)) : List String :=
  (rows.filter (fun r => r.1 == appId)).map (·.2)

/-- **the stored signature lists exactly the migrations recorded for the app's label** - whatever its legacy
(module) name is, and whatever other apps have recorded -/
theorem C10_signature_lists_exactly (appId : String) (rows : List (String × String)) (name : String) :
    name ∈ signatureLists appId rows ↔ (appId, name) ∈ rows := by
  unfold signatureLists
  simp only [List.mem_map, List.mem_filter]
  constructor
  · rintro ⟨⟨l, n⟩, ⟨hm, hl⟩, hn⟩
    have : l = appId := by simpa using hl
    subst this
    simp only at hn
    subst hn
    exact hm
  · intro h
    exact ⟨(appId, name), ⟨h, by simp⟩, rfl⟩

/-- the source matches on the app id (read by the translator on every run) -/
theorem C10_source_applied_migrations_key : DEvo.Generated.appliedMigrationsKey = "app_id" := by decide

/-! ## who creates the tables of models that are new in the hand-over release -/

/-- which value `EvolveAppTask.prepare` looks at to leave new models to the app's migrations: the upgrade method the
stored signature had BEFORE the pending evolutions (`orig`), or the one AFTER them -/
inductive Decider where
  | orig | after
  deriving DecidableEq, Repr

/-- a table of a new model exists after the run if the package created it, or if a migration that creates it was
EXECUTED (not merely recorded) in this run.  `createdByMigration` is the index of the migration that creates the
model in the chain. -/
def tableExists (d : Decider) (origIsMigrations afterIsMigrations : Bool) (executed : List Nat)
    (createdByMigration : Nat) : Bool :=
  let leftToMigrations := match d with
    | .orig => origIsMigrations
    | .after => afterIsMigrations
  !leftToMigrations || executed.contains createdByMigration

/-- **a model that enters the app in the hand-over release gets its table**: the app was on evolutions before the run
(so the package creates the tables of new models), whatever prefix of the chain is only recorded -/
theorem C10_handover_new_model_gets_table (st : MigState) (s c : Nat) :
    tableExists .orig false true (toExecute st s) c = true := by
  simp [tableExists]

/-- the source decides by the method before the run (read by the translator on every run) -/
theorem C10_source_new_models_by_orig_method : DEvo.Generated.newModelsDecidedBy = "orig_upgrade_method" := by decide

/-- deciding by the method AFTER the pending evolutions leaves the model to a migration that is named as already
applied: recorded, never executed, and nobody creates the table -/
theorem C10_cex_new_model_left_to_recorded_migration :
    tableExists .after false true (toExecute ⟨2, []⟩ 1) 0 = false ∧ tableExists .orig false true (toExecute ⟨2, []⟩ 1) 0 = true := by
  decide

/-- the model compares upgrade methods by value; so does the source - no comparison with an
`UpgradeMethod` constant goes by object identity, which a value loaded from the database would fail
(read by the translator on every run) -/
theorem C10_source_upgrade_method_by_value : DEvo.Generated.upgradeMethodIdentityTests = [] := by decide

end DEvo.Props.C10
