import DEvo.Sig.Basic
import DEvo.Run.Load
import DEvo.Generated.Tables

/-! # C16 — evolving one database only applies what is routed to that database

Decision logic of `AppSignature.from_app` (router filter), of the changed-models filter of
`get_app_pending_mutations` and of `BaseModelMutation.is_mutable`, stated outright. -/

namespace DEvo.Props.C16
open DEvo.Sig

/-- a router: may model `m` of app `a` be synchronised to database `db`? -/
abbrev Router := String → String → String → Bool     -- db → app → model → allowed

/-- `AppSignature.from_app(app, database)`: the models of the app that the router allows there -/
def sigModels (r : Router) (db app : String) (models : List String) : List String :=
  models.filter (fun m => r db app m)

/-- **the signature of a database contains exactly the allowed models** -/
theorem C16_sig (r : Router) (db app : String) (models : List String) (m : String) :
    m ∈ sigModels r db app models ↔ m ∈ models ∧ r db app m = true := by
  simp [sigModels, List.mem_filter]

/-- the changed-models filter of `get_app_pending_mutations`: models present on both sides and
different, plus models only in the stored signature -/
def changedModels (stored target : List (String × Nat)) : List String :=
  (target.filter (fun t => match stored.find? (fun s => s.1 == t.1) with
      | some s => s.2 != t.2
      | none => false)).map (·.1) ++
  (stored.filter (fun s => (target.find? (fun t => t.1 == s.1)).isNone)).map (·.1)

/-- mutations that survive the filter (`model = none` for mutations without a model name) -/
def pending (changed : List String) (muts : List (Option String × Bool)) : List (Option String × Bool) :=
  muts.filter (fun mu => match mu.1 with
    | none => true
    | some m => changed.contains m || mu.2)       -- `mu.2`: the mutation is a RenameModel

/-- **a mutation that concerns a model outside both signatures of this database is skipped**:
it is neither simulated nor lowered -/
theorem C16_skip (stored target : List (String × Nat)) (m : String)
    (hs : ∀ s ∈ stored, s.1 ≠ m) (ht : ∀ t ∈ target, t.1 ≠ m)
    (muts : List (Option String × Bool)) :
    (some m, false) ∉ pending (changedModels stored target) muts := by
  intro h
  simp only [pending, List.mem_filter] at h
  obtain ⟨_, hc⟩ := h
  simp only [Bool.or_false, List.contains_eq_mem, decide_eq_true_eq] at hc
  unfold changedModels at hc
  simp only [List.mem_append, List.mem_map, List.mem_filter] at hc
  rcases hc with ⟨t, ⟨ht', _⟩, e⟩ | ⟨s, ⟨hs', _⟩, e⟩
  · exact ht t ht' e
  · exact hs s hs' e

/-- models routed elsewhere are in neither signature of this database -/
theorem C16_elsewhere_not_in_sig (r : Router) (db app : String) (models : List String) (m : String)
    (h : r db app m = false) : m ∉ sigModels r db app models := by
  rw [C16_sig]; simp [h]

/-! ## what a database is handed to evolve: the mutations of every pending label -/

open DEvo.Load in
/-- **every pending label contributes its own mutations on every database**: what is loaded for a list of labels is
the concatenation of what each label ships for that database (its SQL file there, else its Python module) - a
label shipped as an SQL file for one database does not silence the labels after it -/
theorem C16_labels_load_independently (db : String) (es : List Shipped) :
    loadLoop true db false es = es.flatMap (loadOne db) := loadLoop_reset db false es

/-- the source resets its flag for every label (read by the translator on every run) -/
theorem C16_source_found_reset : DEvo.Generated.foundResetPerLabel = true := by decide

open DEvo.Load in
/-- with the flag set once before the loop, a Python evolution that follows an evolution shipped as
`other_<label>.sql` is loaded on `default` and lost on `other` -/
theorem C16_cex_sticky_found_flag :
    let es : List Shipped := [⟨"tidy", none, [("other", "UPDATE ...")], []⟩, ⟨"add_extras", none, [], ["AddField Gamma.note"]⟩]
    loadLoop false "default" false es = [.py "AddField Gamma.note"] ∧
    loadLoop false "other" false es = [.sql "tidy" "UPDATE ..."] ∧
    loadLoop true "other" false es = [.sql "tidy" "UPDATE ...", .py "AddField Gamma.note"] := by
  decide

/-! ## which connection the SQL of new models is generated on -/

/-- the connection `sql_create_models` works on (collecting the SQL switches constraint checking off there): the
database being evolved when the alias is handed on, the default one otherwise -/
def createModelsConnection (passesDatabase : Bool) (db : String) : String :=
  if passesDatabase then db else "default"

/-- **model creation touches no other connection**: for every database being evolved -/
theorem C16_create_models_on_evolved_database (db : String) : createModelsConnection true db = db := rfl

/-- every call of the current source hands the alias on (read by the translator on every run) -/
theorem C16_source_create_models_pass_database : DEvo.Generated.createModelsPassDatabase = true := by decide

/-- every database is evolved from ITS OWN stored signature: the per-database library code (the evolver
package and utils/evolutions.py) never asks for the current version without naming the database (read by
the translator on every run) -/
theorem C16_source_current_version_names_database : DEvo.Generated.currentVersionWithoutAlias = [] := by decide

/-- while a database is being evolved, a model's mutation belongs to THAT database: the routers' write
preference is asked only when no database is named (read by the translator on every run) -/
theorem C16_source_is_mutable_database : DEvo.Generated.isMutableDatabase =
    ["db_name = database or get_database_for_model_name(app_label, self.model_name)",
     "return db_name and db_name == database"] := by decide

end DEvo.Props.C16
