import DEvo.Ser.Sig
import DEvo.Ser.FieldAttrs
import DEvo.Generated.Tables

/-! # C06 — stored project signatures read back exactly as written (attribute values) -/

namespace DEvo.Props.C06
open DEvo.Ser

/-! ## key preservation -/

theorem sdGet_json_toSig_none : (kvs : VD) → (k : String) → vdGet kvs k = none →
    sdGet (jsonD (toSigD kvs)) k = none
  | .nil, k, _ => by simp [toSigD, jsonD, sdGet]
  | .cons k' v t, k, h => by
    simp only [vdGet] at h
    simp only [toSigD, jsonD, sdGet]
    split at h
    · cases h
    · rename_i hk; simp only [hk]; exact sdGet_json_toSig_none t k h

theorem dispatch_decon (a k t : SV) :
    dispatch false true (.cons "_deconstructed" (.bool true) (.cons "args" a (.cons "kwargs" k (.cons "type" t .nil))))
      = .decon := by
  simp [dispatch, sdGet]

theorem dispatch_plain_of_wf (kvs : VD) (h1 : vdHasKey kvs "_deconstructed" = false)
    (h2 : vdHasKey kvs "_enum" = false) : dispatch false true (jsonD (toSigD kvs)) = .plain := by
  have e1 : vdGet kvs "_deconstructed" = none := by
    unfold vdHasKey at h1; cases h : vdGet kvs "_deconstructed" <;> simp_all
  have e2 : vdGet kvs "_enum" = none := by
    unfold vdHasKey at h2; cases h : vdGet kvs "_enum" <;> simp_all
  simp [dispatch, sdGet_json_toSig_none kvs _ e1, sdGet_json_toSig_none kvs _ e2]

/-! ## the round trip with a working dispatch (`isinstance(value, dict)`) -/

mutual
theorem rt (v : V) (h : WF v = true) : fromSig false (json (toSig v)) = norm v := by
  cases v with
  | null => simp [toSig, json, fromSig, norm]
  | int i => simp [toSig, json, fromSig, norm]
  | str s => simp [toSig, json, fromSig, norm]
  | bool b => simp [toSig, json, fromSig, norm]
  | list xs => simp [toSig, json, fromSig, norm, rtL xs (by simpa [WF] using h)]
  | tuple xs => simp [toSig, json, fromSig, norm, rtL xs (by simpa [WF] using h)]
  | dict kvs =>
    simp only [WF, Bool.and_eq_true, Bool.not_eq_true'] at h
    obtain ⟨⟨h1, h2⟩, hw⟩ := h
    simp [toSig, json, fromSig, norm, dispatch_plain_of_wf kvs h1 h2, rtD kvs hw]
  | q c n ch =>
    have hl := rtL ch (by simpa [WF] using h)
    cases c <;> cases n <;>
      simp [toSig, toSigD, toSigL, json, jsonD, jsonL, fromSig, fromSigD, fromSigL, dispatch, sdGet, qKwargs,
        rebuild, vdGet, seqOf, norm, hl]
  | obj ty args kw =>
    simp only [WF, Bool.and_eq_true, Bool.not_eq_true', bne_iff_ne, ne_eq] at h
    obtain ⟨⟨⟨⟨hty, ha⟩, hk⟩, h1⟩, h2⟩ := h
    have hl := rtL args ha
    have hd := rtD kw hk
    have hp := dispatch_plain_of_wf kw h1 h2
    have htyb : (ty == "django.db.models.Q") = false := by simpa using hty
    simp only [toSig, json, jsonD, fromSig, dispatch_decon, fromSigD, hp, hl, hd, norm]
    simp [rebuild, vdGet, seqOf, htyb]
  | enum ty name =>
    simp [toSig, json, jsonD, fromSig, fromSigD, dispatch, sdGet, rebuildEnum, vdGet, norm]
theorem rtL (xs : VL) (h : WFL xs = true) : fromSigL false (jsonL (toSigL xs)) = normL xs := by
  cases xs with
  | nil => simp [toSigL, jsonL, fromSigL, normL]
  | cons v t =>
    simp only [WFL, Bool.and_eq_true] at h
    simp [toSigL, jsonL, fromSigL, normL, rt v h.1, rtL t h.2]
theorem rtD (kvs : VD) (h : WFD kvs = true) : fromSigD false (jsonD (toSigD kvs)) = normD kvs := by
  cases kvs with
  | nil => simp [toSigD, jsonD, fromSigD, normD]
  | cons k v t =>
    simp only [WFD, Bool.and_eq_true] at h
    simp [toSigD, jsonD, fromSigD, normD, rt v h.1, rtD t h.2]
end

/-- **C06 round trip, repaired dispatch**: every well-formed attribute value — nested, negated,
OR/XOR `Q` objects, `F`, `Value`, combined expressions, enums, tuples, lists, dictionaries —
stored and read back is its normal form (tuples that JSON cannot represent have become lists;
everything else, including every deconstructed object, is rebuilt). -/
theorem C06_roundtrip (v : V) (h : WF v = true) : fromSig false (json (toSig v)) = norm v := rt v h

/-! ## plain data round-trips under either dispatch -/

mutual
theorem rtPlain (b : Bool) (v : V) (h : Plain v = true) (hw : WF v = true) :
    fromSig b (json (toSig v)) = norm v := by
  cases v with
  | null => simp [toSig, json, fromSig, norm]
  | int i => simp [toSig, json, fromSig, norm]
  | str s => simp [toSig, json, fromSig, norm]
  | bool x => simp [toSig, json, fromSig, norm]
  | list xs => simp [toSig, json, fromSig, norm, rtPlainL b xs (by simpa [Plain] using h) (by simpa [WF] using hw)]
  | tuple xs => simp [toSig, json, fromSig, norm, rtPlainL b xs (by simpa [Plain] using h) (by simpa [WF] using hw)]
  | dict kvs =>
    simp only [WF, Bool.and_eq_true, Bool.not_eq_true'] at hw
    obtain ⟨⟨h1, h2⟩, hwd⟩ := hw
    have hp : dispatch b true (jsonD (toSigD kvs)) = .plain := by
      cases b
      · exact dispatch_plain_of_wf kvs h1 h2
      · simp [dispatch]
    simp [toSig, json, fromSig, norm, hp, rtPlainD b kvs (by simpa [Plain] using h) hwd]
  | q c n ch => simp [Plain] at h
  | obj ty args kw => simp [Plain] at h
  | enum ty name => simp [Plain] at h
theorem rtPlainL (b : Bool) (xs : VL) (h : PlainL xs = true) (hw : WFL xs = true) :
    fromSigL b (jsonL (toSigL xs)) = normL xs := by
  cases xs with
  | nil => simp [toSigL, jsonL, fromSigL, normL]
  | cons v t =>
    simp only [PlainL, Bool.and_eq_true] at h
    simp only [WFL, Bool.and_eq_true] at hw
    simp [toSigL, jsonL, fromSigL, normL, rtPlain b v h.1 hw.1, rtPlainL b t h.2 hw.2]
theorem rtPlainD (b : Bool) (kvs : VD) (h : PlainD kvs = true) (hw : WFD kvs = true) :
    fromSigD b (jsonD (toSigD kvs)) = normD kvs := by
  cases kvs with
  | nil => simp [toSigD, jsonD, fromSigD, normD]
  | cons k v t =>
    simp only [PlainD, Bool.and_eq_true] at h
    simp only [WFD, Bool.and_eq_true] at hw
    simp [toSigD, jsonD, fromSigD, normD, rtPlain b v h.1 hw.1, rtPlainD b t h.2 hw.2]
end

/-- today's dispatch (`cls is dict`) is harmless exactly where no object has to be rebuilt -/
theorem C06_partial_plain (v : V) (h : Plain v = true) (hw : WF v = true) :
    fromSig true (json (toSig v)) = norm v := rtPlain true v h hw

/-! ## re-serialisation gives the same stored text, under either dispatch -/

mutual
theorem reserStrict (s : SV) : json (toSig (fromSig true (json s))) = json s := by
  cases s with
  | null => simp [json, fromSig, toSig]
  | int i => simp [json, fromSig, toSig]
  | str x => simp [json, fromSig, toSig]
  | bool b => simp [json, fromSig, toSig]
  | list xs => simp [json, fromSig, toSig, reserStrictL xs]
  | tuple xs => simp [json, fromSig, toSig, reserStrictL xs]
  | dict o kvs => simp [json, fromSig, dispatch, toSig, reserStrictD kvs]
theorem reserStrictL (xs : SL) : jsonL (toSigL (fromSigL true (jsonL xs))) = jsonL xs := by
  cases xs with
  | nil => simp [jsonL, fromSigL, toSigL]
  | cons v t => simp [jsonL, fromSigL, toSigL, reserStrict v, reserStrictL t]
theorem reserStrictD (kvs : SD) : jsonD (toSigD (fromSigD true (jsonD kvs))) = jsonD kvs := by
  cases kvs with
  | nil => simp [jsonD, fromSigD, toSigD]
  | cons k v t => simp [jsonD, fromSigD, toSigD, reserStrict v, reserStrictD t]
end

/-- with today's dispatch the reloaded value re-serialises to the same stored text (for every
value, well-formed or not): the defect F7 is invisible in the stored text -/
theorem C06_reserialize_strict (v : V) :
    json (toSig (fromSig true (json (toSig v)))) = json (toSig v) := reserStrict (toSig v)

theorem jsonL_toSigL_mapTup : (xs : VL) → jsonL (toSigL (mapTup xs)) = jsonL (toSigL xs)
  | .nil => rfl
  | .cons v t => by
    simp only [mapTup, toSigL, jsonL, jsonL_toSigL_mapTup t]
    cases v <;> simp [listToTuple, toSig, json]

mutual
theorem reserNorm (v : V) : json (toSig (norm v)) = json (toSig v) := by
  cases v with
  | null => rfl
  | int i => rfl
  | str s => rfl
  | bool b => rfl
  | list xs => simp [norm, toSig, json, reserNormL xs]
  | tuple xs => simp [norm, toSig, json, reserNormL xs]
  | dict kvs => simp [norm, toSig, json, reserNormD kvs]
  | q c n ch => simp [norm, toSig, json, jsonD, jsonL_toSigL_mapTup, reserNormL ch]
  | obj ty args kw => simp [norm, toSig, json, jsonD, reserNormL args, reserNormD kw]
  | enum ty name => rfl
theorem reserNormL (xs : VL) : jsonL (toSigL (normL xs)) = jsonL (toSigL xs) := by
  cases xs with
  | nil => rfl
  | cons v t => simp [normL, toSigL, jsonL, reserNorm v, reserNormL t]
theorem reserNormD (kvs : VD) : jsonD (toSigD (normD kvs)) = jsonD (toSigD kvs) := by
  cases kvs with
  | nil => rfl
  | cons k v t => simp [normD, toSigD, jsonD, reserNorm v, reserNormD t]
end

/-- with the repaired dispatch too: read back, then written again, gives the same stored text -/
theorem C06_reserialize (v : V) (h : WF v = true) :
    json (toSig (fromSig false (json (toSig v)))) = json (toSig v) := by
  rw [rt v h]; exact reserNorm v

/-- **every connector survives**: a `Q` joined with any non-default connector (OR, XOR, whatever a
later Django adds) reads back with that connector and that negation -/
theorem C06_q_connector_kept (c : String) (neg : Bool) (ch : VL) (h : WFL ch = true) :
    fromSig false (json (toSig (.q (some c) neg ch))) = .q (some c) neg (mapTup (normL ch)) := by
  rw [C06_roundtrip _ (by simpa [WF] using h)]
  simp [norm]

/-- what the source writes for a Q object: `_connector` whenever it is not the default, whatever
it is (read by the translator on every run; `qKwargs` is the model of these two tests) -/
theorem C06_source_q_kwargs : DEvo.Generated.qSigKwargs =
    ["q.connector != q.default: kwargs['_connector'] = q.connector", "q.negated: kwargs['_negated'] = True"] := by
  decide

/-! ## findings -/

def qA1 : V := .q none false (.cons (.tuple (.cons (.str "a") (.cons (.int 1) .nil))) .nil)

/-- F7: with `cls is dict` a stored `Q(a=1)` comes back as a raw dictionary, not as a `Q` -/
theorem C06_cex_q_not_rebuilt :
    fromSig true (json (toSig qA1)) ≠ norm qA1 ∧
    fromSig true (json (toSig qA1)) =
      .dict (.cons "_deconstructed" (.bool true)
        (.cons "args" (.list (.cons (.list (.cons (.str "a") (.cons (.int 1) .nil))) .nil))
        (.cons "kwargs" (.dict .nil) (.cons "type" (.str "django.db.models.Q") .nil)))) := by
  constructor
  · simp [qA1, toSig, toSigL, toSigD, qKwargs, json, jsonL, jsonD, fromSig, fromSigL, fromSigD, dispatch, norm]
  · simp [qA1, toSig, toSigL, toSigD, qKwargs, json, jsonL, jsonD, fromSig, fromSigL, fromSigD, dispatch]

/-- F8: a tuple-valued attribute (`UniqueConstraint.fields`, index `expressions`) comes back as a
list under either dispatch, and a list is not equal to a tuple -/
theorem C06_cex_tuple_becomes_list (b : Bool) :
    fromSig b (json (toSig (.tuple (.cons (.str "a") (.cons (.str "b") .nil))))) =
      .list (.cons (.str "a") (.cons (.str "b") .nil)) ∧
    (V.list (.cons (.str "a") (.cons (.str "b") .nil)) ≠ .tuple (.cons (.str "a") (.cons (.str "b") .nil))) := by
  constructor
  · simp [toSig, toSigL, json, jsonL, fromSig, fromSigL]
  · intro h; cases h

mutual
/-- no tuple anywhere except where tuple-ness is structural -/
def TupleFree : V → Bool
  | .tuple _ => false
  | .list xs => TupleFreeL xs
  | .dict kvs => TupleFreeD kvs
  | .q _ _ ch => QChildrenOK ch
  | .obj _ args kw => TupleFreeL args && TupleFreeD kw
  | _ => true
def TupleFreeL : VL → Bool
  | .nil => true | .cons v t => TupleFree v && TupleFreeL t
def TupleFreeD : VD → Bool
  | .nil => true | .cons _ v t => TupleFree v && TupleFreeD t
/-- children of a `Q`: lookup tuples `(key, value)` whose items are tuple-free, or nested `Q`s -/
def QChildrenOK : VL → Bool
  | .nil => true
  | .cons (.tuple xs) t => TupleFreeL xs && QChildrenOK t
  | .cons (.q c n ch) t => QChildrenOK ch && QChildrenOK t
  | .cons _ _ => false
end

/-! ## the attribute dictionary of a field signature -/

/-- the loader as the current source has it (read by the translator) -/
def loadCfg : AttrLoadCfg := ⟨DEvo.Generated.attrLoadByPresence⟩

/-- the stored dictionary never uses an alias name as a key (version-2 signatures are written under the
attribute's own name; `_unique`, `remote_field` are Django attribute names, not signature keys) -/
def NoAliasKeys {β} (aliases : List (String × String)) (attrs : List (String × β)) : Prop :=
  ∀ a al, aget aliases a = some al → aget attrs al = none

/-- **every tracked attribute reads back with the value it was stored with — `None`, `False`, `0` and `''`
included — and nothing else appears**, for every attribute dictionary and every list of tracked names (values are
arbitrary: `isNull` may be anything).  Holds whenever the loader goes by key presence. -/
theorem C06_field_attrs_roundtrip {β} (cfg : AttrLoadCfg) (h : cfg.byPresence = true) (isNull : β → Bool)
    (aliases : List (String × String)) (known : List String) (attrs : List (String × β))
    (hal : NoAliasKeys aliases attrs) (a : String) :
    aget (loadAttrs cfg isNull aliases known attrs) a = if a ∈ known then aget attrs a else none := by
  unfold loadAttrs
  rw [aget_filterMap_keyed]
  split
  · have hb : (aget aliases a).bind (aget attrs) = none := by
      cases hq : aget aliases a with
      | none => rfl
      | some al => simp [hal a al hq]
    simp only [fetch, hb]
    cases aget attrs a with
    | none => rfl
    | some v => simp [h]
  · rfl

/-- the current source loads by presence -/
theorem C06_source_attr_load : DEvo.Generated.attrLoadByPresence = true := by decide

/-- ... so the round trip holds for the current loader -/
theorem C06_field_attrs_current {β} (isNull : β → Bool) (known : List String) (attrs : List (String × β))
    (hal : NoAliasKeys DEvo.Generated.attrAliases attrs) (a : String) :
    aget (loadAttrs loadCfg isNull DEvo.Generated.attrAliases known attrs) a =
      if a ∈ known then aget attrs a else none :=
  C06_field_attrs_roundtrip loadCfg C06_source_attr_load isNull _ known attrs hal a

/-- a loader that goes by "value is not None" loses an explicitly stored `None` -/
theorem C06_cex_none_attr_dropped :
    aget (loadAttrs ⟨false⟩ (fun (v : Option Nat) => v.isNone) [] ["max_length", "null"]
        [("max_length", none), ("null", some 1)]) "max_length" = none ∧
    aget [("max_length", (none : Option Nat)), ("null", some 1)] "max_length" = some none := by decide

/-- non-vacuity of `NoAliasKeys` for an ordinary stored dictionary -/
example : NoAliasKeys [("unique", "_unique"), ("rel", "remote_field")]
    [("max_length", (none : Option Nat)), ("unique", some 1)] := by
  intro a al h
  have : (a = "unique" ∧ al = "_unique") ∨ (a = "rel" ∧ al = "remote_field") := by
    simp only [aget, List.find?_cons] at h
    by_cases h1 : ("unique" == a) = true
    · simp [h1] at h; exact Or.inl ⟨by simpa using Eq.symm (by simpa using h1), h.symm⟩
    · simp [h1] at h
      by_cases h2 : ("rel" == a) = true
      · simp [h2] at h; exact Or.inr ⟨by simpa using Eq.symm (by simpa using h2), h.symm⟩
      · simp [h2] at h
  rcases this with ⟨_, e⟩ | ⟨_, e⟩ <;> subst e <;> decide

/-- an index stored without a `fields` entry (an expression-only index) is read back without one: the loader's
default for the missing key is `None`, not an empty list (read by the translator on every run) -/
theorem C06_source_index_fields_default : DEvo.Generated.indexFieldsDefault = "None" := by decide

end DEvo.Props.C06
