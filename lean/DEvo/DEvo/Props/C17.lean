import DEvo.Run.Monitors
import DEvo.Generated.Tables
import DEvo.Generated.Skeletons

/-! # C17 — lifecycle signals are paired and tell the truth about the run

Theorems over the control skeletons that the translator regenerates from `Evolver.evolve`,
`EvolveAppTask.execute` and `EvolveAppTask._create_models` on every run.  `Exec` lets every call
raise, every branch go either way and every loop run any number of times, so "a fault at any
statement of any run" is covered by the quantifier over executions. -/

namespace DEvo.Props.C17
open DEvo.Skel

/-- saturating counter 0,1,2+ -/
inductive Cnt where | zero | one | many
  deriving DecidableEq, Repr
def Cnt.inc : Cnt → Cnt | .zero => .one | _ => .many

structure Life where
  evolving : Cnt      -- `evolving.send` returned
  evolved : Cnt       -- `evolved.send` called
  failed : Cnt        -- `evolving_failed.send` called
  saved : Bool        -- `_save_project_sig` returned
  work : Bool         -- a task was executed / records were written before `evolving` returned
  deriving DecidableEq, Repr

def lifeStep (s : Life) (ev : Event) : Life :=
  match ev with
  | .ret n =>
    if n == "evolving.send" then { s with evolving := s.evolving.inc }
    else if n == "_save_project_sig" then { s with saved := true }
    else s
  | .call n =>
    if n == "evolved.send" then { s with evolved := s.evolved.inc }
    else if n == "evolving_failed.send" then { s with failed := s.failed.inc }
    else if (hasSub "execute_tasks" n || n == "_save_project_sig") && s.evolving == .zero then { s with work := true }
    else s
  | _ => s

def life0 : Life := ⟨.zero, .zero, .zero, false, false⟩

/-- what the property demands of the end state of a run -/
def lifeOK (o : Outcome) (s : Life) : Bool :=
  -- `evolving` at most once, and before any change
  (s.evolving != .many) && !s.work &&
  -- `evolved` only after everything was saved
  (s.evolved == .zero || s.saved) &&
  (match o with
   | .normal =>
     -- returned normally: exactly one `evolving`, exactly one `evolved`, no `evolving_failed`
     s.evolving == .one && s.evolved == .one && s.failed == .zero && s.saved
   | .raised =>
     if s.evolving == .zero then s.evolved == .zero && s.failed == .zero
     else
       -- exactly one of the two follow-ups; `evolved` only when its own delivery is what raised
       (s.failed == .one && s.evolved == .zero) || (s.evolved == .one && s.failed == .zero && s.saved)
   | .returned => false)

/-- **`Evolver.evolve`, every execution**: `evolving` is emitted at most once and before any task
runs or anything is recorded; a run that returns normally emitted exactly one `evolved`, after
`_save_project_sig` returned, and no `evolving_failed`; a run that fails after `evolving` emitted
exactly one `evolving_failed` and no `evolved` (or failed inside the delivery of `evolved`
itself); a run that fails before `evolving` emitted neither. -/
theorem C17_lifecycle :
    ∀ tr o, Exec Generated.evolverEvolve tr o → lifeOK o (Mon.run ⟨lifeStep⟩ life0 tr) = true :=
  reach_all ⟨lifeStep⟩ 8 Generated.evolverEvolve life0 lifeOK (by decide)

/-! ## applying/applied, creating/created pairs -/

structure Pair where
  opened : Cnt
  closed : Cnt
  sqlAfterOpen : Bool     -- the SQL ran between the pair
  sqlOutside : Bool       -- the SQL ran before the opening signal or after the closing one
  deriving DecidableEq, Repr

def pairStep (openSig closeSig : String) (s : Pair) (ev : Event) : Pair :=
  match ev with
  | .call n =>
    if n == openSig then { s with opened := s.opened.inc }
    else if n == closeSig then { s with closed := s.closed.inc }
    else if n == "sql_executor.run_sql" then
      if s.opened == .one && s.closed == .zero then { s with sqlAfterOpen := true } else { s with sqlOutside := true }
    else s
  | _ => s

def pairOK (o : Outcome) (s : Pair) : Bool :=
  !s.sqlOutside && s.opened != .many && s.closed != .many &&
  -- a closing signal only after its opening signal and after the SQL
  (s.closed == .zero || (s.opened == .one && s.sqlAfterOpen)) &&
  -- returned normally with the pair opened ⇒ closed
  (match o with
   | .raised => true
   | _ => s.opened == .zero || s.closed == .one)

/-- **`EvolveAppTask.execute`**: `applying_evolution` is followed by `applied_evolution` unless the
run fails in between; the task's SQL runs only between the two; neither is emitted twice -/
theorem C17_applying_applied :
    ∀ tr o, Exec Generated.taskExecute tr o →
      pairOK o (Mon.run ⟨pairStep "applying_evolution.send" "applied_evolution.send"⟩ ⟨.zero, .zero, false, false⟩ tr) = true :=
  reach_all _ 8 Generated.taskExecute _ pairOK (by decide)

/-- in `_create_models` the signals are sent once per task (loops), so the counters saturate;
what is checked is the bracket: SQL only after a `creating_models`, `created_models` only after
the SQL, and a normal return implies the SQL ran -/
structure Bracket where
  opened : Bool
  sql : Bool
  closedBeforeSql : Bool
  sqlBeforeOpen : Bool
  openAfterSql : Bool
  deriving DecidableEq, Repr

def bracketStep (s : Bracket) (ev : Event) : Bracket :=
  match ev with
  | .call n =>
    if n == "creating_models.send" then (if s.sql then { s with openAfterSql := true } else { s with opened := true })
    else if n == "created_models.send" then (if s.sql then s else { s with closedBeforeSql := true })
    else if n == "sql_executor.run_sql" then (if s.opened then { s with sql := true } else { s with sql := true, sqlBeforeOpen := true })
    else s
  | _ => s

theorem C17_creating_created :
    ∀ tr o, Exec Generated.taskCreateModels tr o →
      (let s := Mon.run ⟨bracketStep⟩ ⟨false, false, false, false, false⟩ tr
       !s.closedBeforeSql && !s.openAfterSql && (o == .raised || s.sql)) = true :=
  reach_all ⟨bracketStep⟩ 8 Generated.taskCreateModels ⟨false, false, false, false, false⟩
    (fun o s => !s.closedBeforeSql && !s.openAfterSql && (o == .raised || s.sql)) (by decide)

/-- **`evolved` means saved — the part the skeleton cannot see**: the list handed to `_save_project_sig` holds the
`new_evolutions` of every task (it is created once and only ever extended).  Read from the source on every run. -/
theorem C17_source_saved_all : DEvo.Generated.collectsAllNewEvolutions = true := by decide

/-! ## a transaction that cannot be finished is not passed over in silence -/

/-- "finishing the executor's transaction raised" -/
def finishFailedStep (st : Bool) (ev : Event) : Bool :=
  st || (match ev with | .raised n => hasSub "finish_transaction" n | _ => false)

/-- **`SQLExecutor.__exit__`, every execution**: when finishing the last transaction fails (the COMMIT / RELEASE
SAVEPOINT that ends the block), leaving the `with` block raises - the work that was announced with
`applied_evolution` / `created_models` and is now rolled back cannot be followed by `evolved` -/
theorem C17_executor_exit_propagates :
    ∀ tr o, Exec Generated.sqlExecutorExit tr o →
      Mon.run ⟨finishFailedStep⟩ false tr = true → o = .raised := by
  intro tr o hex hst
  have := reach_all ⟨finishFailedStep⟩ 8 Generated.sqlExecutorExit false
    (fun o st => !st || o == .raised) (by decide) tr o hex
  simp only [hst, Bool.not_true, Bool.false_or, beq_iff_eq] at this
  exact this

end DEvo.Props.C17
