import DEvo.Opt.Optimize
import DEvo.Generated.Tables
import DEvo.Run.Merge
import DEvo.Run.Load

/-! # C14 — the SQL preview is exactly what an execution would run; output is deterministic -/

namespace DEvo.Props.C14
open DEvo.Opt DEvo.Mut

/-! ## independence of the hash seed

`change_meta_unique_together` / `change_meta_index_together` compute `set(old) - set(new)` and
`set(new) - set(old)` and emit one statement per element *in the iteration order of the set*,
which for tuples of strings depends on `PYTHONHASHSEED`.  The set's iteration order is an
explicit permutation argument here. -/

/-- how the code walks over the entries it adds / removes -/
inductive Iteration
  | set        -- iteration order of a Python set: any permutation, chosen by the hash seed
  | sorted
  | declared   -- the order of the declared list
  deriving DecidableEq, Repr

def modeOf (s : String) : Option Iteration :=
  if s == "set" then some .set else if s == "sorted" then some .sorted
  else if s == "declared" then some .declared else none

/-- the statements emitted for the entries, identified by keys that carry their canonical order;
`declared` is the list as written in the evolution / signature, `iterationOrder` what iterating
over `set(declared)` yields in this process -/
def emit (mode : Iteration) (declared iterationOrder : List Nat) : List Nat :=
  match mode with
  | .set => iterationOrder
  | .sorted => iterationOrder.mergeSort (fun a b => decide (a ≤ b))
  | .declared => declared

theorem sorted_perm_invariant (l1 l2 : List Nat) (h : l1.Perm l2) :
    l1.mergeSort (fun a b => decide (a ≤ b)) = l2.mergeSort (fun a b => decide (a ≤ b)) := by
  have hp : (l1.mergeSort (fun a b => decide (a ≤ b))).Perm (l2.mergeSort (fun a b => decide (a ≤ b))) :=
    (List.mergeSort_perm l1 _).trans (h.trans (List.mergeSort_perm l2 _).symm)
  have hs : ∀ l : List Nat, (l.mergeSort (fun a b => decide (a ≤ b))).Pairwise (fun a b => a ≤ b) := by
    intro l
    have := List.pairwise_mergeSort (le := fun a b : Nat => decide (a ≤ b))
      (by intro a b c; simp; omega) (by intro a b; simp; omega) l
    exact this.imp (by intro a b hab; simpa using hab)
  exact List.Perm.eq_of_pairwise (le := fun a b : Nat => a ≤ b)
    (by intro a b _ _ h1 h2; omega) (hs l1) (hs l2) hp

/-- **unless the code iterates over a bare set, the output is the same for every iteration order
of that set** (every hash seed) -/
theorem C14_perm_invariant (mode : Iteration) (hmode : mode ≠ .set) (declared l1 l2 : List Nat)
    (h : l1.Perm l2) : emit mode declared l1 = emit mode declared l2 := by
  cases mode with
  | set => exact absurd rfl hmode
  | sorted => exact sorted_perm_invariant l1 l2 h
  | declared => rfl

/-- **the source does not iterate over a bare set** (regenerated from
`change_meta_unique_together` / `change_meta_index_together` on every run; finding F14 repaired) -/
theorem C14_source_iteration_deterministic :
    (modeOf DEvo.Generated.togetherIteration).isSome = true ∧
    modeOf DEvo.Generated.togetherIteration ≠ some .set := by
  decide

/-- F14: iterating over the set itself, two iteration orders of the same set give different
statement orders -/
theorem C14_cex_seed_dependent :
    ([1, 2] : List Nat).Perm [2, 1] ∧ emit .set [1, 2] [1, 2] ≠ emit .set [1, 2] [2, 1] := by
  refine ⟨List.Perm.swap 2 1 [], by decide⟩

/-! ## preview = execution

The preview (`task.sql`, computed in `EvolveAppTask.prepare`) and the executed SQL (computed per
batch in `_build_batches`) are the same function of the same signature and database state applied
to the *same mutation objects*; they can only differ if the objects changed in between. -/

/-- if processing leaves the definitions as they were, processing them again gives the same
optimised list (so preview and execution are generated from the same mutations) -/
theorem C14_equal_if_defs_unchanged (existing : List String) (ms out arr : List Mutation)
    (h : preprocess existing ms = .ok (out, arr)) (hsame : arr = ms) :
    preprocess existing arr = .ok (out, arr) := by
  rw [hsame]; rw [hsame] at h; exact h

/-- the F4 witness: `[AddField x, RenameField x→b]` -/
def f4Defs : List Mutation :=
  [.addField "Alpha" "x" "IntegerField" (some "1") [], .renameField "Alpha" "x" "b" none none]

/-- optimised list of the first generation (the preview) -/
def firstOut : List Mutation := match preprocess ["Alpha"] f4Defs with | .ok (o, _) => o | .error _ => []
/-- the definitions as the first pass leaves them -/
def firstArr : List Mutation := match preprocess ["Alpha"] f4Defs with | .ok (_, a) => a | .error _ => []
/-- optimised list of the second generation (the execution) -/
def secondOut : List Mutation := match preprocess ["Alpha"] firstArr with | .ok (o, _) => o | .error _ => []

/-- …and when the first pass rewrote them (finding F4), the second generation sees different
definitions and produces a different optimised list -/
theorem C14_cex_preview_differs :
    (preprocess ["Alpha"] f4Defs).toOption.isSome = true ∧ firstArr ≠ f4Defs ∧ firstOut ≠ secondOut := by
  refine ⟨by decide, by decide, by decide⟩

/-- **DeleteModel emits its DROP TABLE statements while walking the field list itself** (no set of table names in
between): their order is the declaration order of the many-to-many fields in every process.  Read from the source on
every run. -/
theorem C14_source_delete_model_ordered : DEvo.Generated.deleteModelIteration = "ordered" := by decide

/-! ## preview and execution read the same evolution files -/

open DEvo.Load in
/-- **the preview and the execution load the same mutations on every database** when both hand the alias of the
database being evolved to the loader: whatever the app ships (generic SQL files, per-database SQL files, Python
modules), for every alias -/
theorem C14_preview_loads_what_execution_loads (db : String) (es : List Shipped) :
    executeLoad true db es = previewLoad db es := rfl

/-- both call sites of the current source do (read by the translator on every run) -/
theorem C14_source_loads_pass_database : DEvo.Generated.mutationLoadsPassDatabase = true := by decide

open DEvo.Load in
/-- when the execution falls back to the default alias, an evolution shipped as per-database SQL files is previewed
from one file and executed from another -/
theorem C14_cex_execution_loads_default_file :
    let es : List Shipped := [⟨"idx", none, [("default", "CREATE INDEX a"), ("archive", "CREATE INDEX b")], []⟩]
    previewLoad "archive" es = [.sql "idx" "CREATE INDEX b"] ∧
    executeLoad false "archive" es = [.sql "idx" "CREATE INDEX a"] := by
  decide

/-! ## consecutive graph nodes of one kind become ONE executed batch (`merge_dicts`) -/

open DEvo.Run in
/-- **the executed batch lists a task's evolutions in the order of the graph nodes they came from** (which
is the order of the app's SEQUENCE, C09): folding any number of node infos into a batch, destination
first, gives every task the concatenation of its evolutions in node order - the order the preview
(generated from the SEQUENCE in one go) shows -/
theorem C14_merged_batch_keeps_node_order (bs : List BatchInfo) : ∀ (b0 : BatchInfo) (task : String),
    evolutionsOf (bs.foldl (mergeBatch true) b0).tasks task =
      evolutionsOf b0.tasks task ++
        bs.flatMap (fun b => (b.tasks.filter (fun kv => kv.1 == task)).flatMap (·.2.evolutions)) := by
  induction bs with
  | nil => intro b0 task; simp
  | cons b rest ih =>
    intro b0 task
    rw [List.foldl_cons, ih]
    simp [mergeBatch, evolutionsOf_fold, List.append_assoc]

/-- `merge_dicts` appends the source's list to the destination's (read by the translator on every run) -/
theorem C14_source_merge_dest_first : DEvo.Generated.mergeListsDestFirst = true := by decide

/-- ... and `_build_batches` merges a node into the previous batch by exactly that call, destination =
the batch so far (read by the translator on every run) -/
theorem C14_source_batch_merge_call :
    DEvo.Generated.batchMergeBody = ["merge_dicts(prev_batch_info, batch_info)"] := by decide

open DEvo.Run in
/-- with the operands the other way round a later evolution is executed before an earlier one -/
theorem C14_cex_source_first :
    evolutionsOf (mergeBatch false ⟨[("vapp", ⟨["e1"], ["AddField b"]⟩)], []⟩
                                   ⟨[("vapp", ⟨["e2"], ["AddField c"]⟩)], ["lapp"]⟩).tasks "vapp" = ["e2", "e1"] ∧
    evolutionsOf (mergeBatch true ⟨[("vapp", ⟨["e1"], ["AddField b"]⟩)], []⟩
                                  ⟨[("vapp", ⟨["e2"], ["AddField c"]⟩)], ["lapp"]⟩).tasks "vapp" = ["e1", "e2"] := by decide

end DEvo.Props.C14
