import DEvo.Opt.Regroup
import DEvo.Mut.Env
import DEvo.Generated.Tables

/-! # C03 — optimising a mutation sequence never changes its outcome

`preprocess` is a line-by-line model of `AppMutator._preprocess_mutations` (validated against
the real optimiser exhaustively on all valid sequences up to length 3–4 of a 52-mutation
alphabet, and on random sequences up to length 12, including its KeyErrors and its second
pass over the rewritten mutation objects). -/

namespace DEvo.Props.C03
open DEvo.Sig DEvo.Mut DEvo.Opt

/-! ## what is proved: regrouping by model -/

/-- **Regrouping is sound**: for every batch of model-local mutations (AddField, ChangeField,
DeleteField, RenameField, ChangeMeta) that is accepted one mutation at a time, and every
duplicate-free list of model names covering the batch (the optimiser uses `sorted(model_names)`),
running the batch regrouped by model is accepted too and ends in the same signature. -/
theorem C03_regroup_sound (e : Env) (names : List String) (ms : List Mutation) (a a' : AppSig)
    (hnd : names.Nodup) (hall : ∀ m ∈ ms, modelName m ∈ names)
    (h : applyAll e ms a = .ok a') : applyAll e (regroupBy names ms) a = .ok a' :=
  applyAll_swapEq e (swapEq_regroup names ms hnd hall) a a' h

/-- mutations on different models commute -/
theorem C03_commute (e : Env) (mu1 mu2 : Mutation) (a a1 a2 : AppSig)
    (hne : modelName mu1 ≠ modelName mu2)
    (h1 : applyLocal e mu1 a = .ok a1) (h2 : applyLocal e mu2 a1 = .ok a2) :
    ∃ a1', applyLocal e mu2 a = .ok a1' ∧ applyLocal e mu1 a1' = .ok a2 :=
  applyLocal_comm e mu1 mu2 a a1 a2 hne h1 h2

/-! ## rewrite rules the optimiser relies on, each semantics-preserving in isolation -/

theorem setFieldL_absent (fs : List FieldSig) (f : FieldSig)
    (h : fs.find? (fun g => g.name == f.name) = none) : setFieldL fs f = fs ++ [f] := by
  induction fs with
  | nil => rfl
  | cons g r ih =>
    simp only [List.find?] at h
    cases hg : (g.name == f.name) with
    | true => simp [hg] at h
    | false =>
      simp only [hg] at h
      simp only [setFieldL, hg, Bool.false_eq_true, if_false, List.cons_append, ih h]

theorem find_absent_all (fs : List FieldSig) (n : String)
    (h : fs.find? (fun g => g.name == n) = none) : ∀ g ∈ fs, (g.name == n) = false := by
  intro g hg
  have := List.find?_eq_none.mp h g hg
  simpa using this

theorem delete_after_add (e : Env) (f : FieldSig) (m : ModelSig)
    (hnew : m.getField f.name = none)
    (hut : ∀ entry ∈ m.uniqueTogether, f.name ∉ entry ∧ entry ≠ [])
    (hpk : truthy (e.attrValue f "primary_key") = false) :
    simDeleteField e f.name (m.addField f) = .ok m := by
  unfold ModelSig.getField at hnew
  have hset := setFieldL_absent m.fields f hnew
  have hall := find_absent_all m.fields f.name hnew
  unfold simDeleteField ModelSig.getField ModelSig.addField
  simp only [hset]
  rw [List.find?_append]
  simp only [hnew, Option.none_or, List.find?, beq_self_eq_true, hpk, Bool.false_eq_true, if_false]
  congr 1
  have hutEq : (m.uniqueTogether.map (fun entry => entry.filter (fun n => n != f.name))).filter
      (fun entry => !entry.isEmpty) = m.uniqueTogether := by
    have h1 : m.uniqueTogether.map (fun entry => entry.filter (fun n => n != f.name)) = m.uniqueTogether := by
      conv => rhs; rw [← List.map_id m.uniqueTogether]
      apply List.map_congr_left
      intro entry hentry
      simp only [id]
      rw [List.filter_eq_self]
      intro n hn
      have : n ≠ f.name := fun hh => (hut entry hentry).1 (hh ▸ hn)
      simpa using this
    rw [h1, List.filter_eq_self]
    intro entry hentry
    have := (hut entry hentry).2
    cases entry with
    | nil => exact absurd rfl this
    | cons _ _ => rfl
  have hfEq : (m.fields ++ [f]).filter (fun g => !(g.name == f.name)) = m.fields := by
    rw [List.filter_append]
    have : m.fields.filter (fun g => !(g.name == f.name)) = m.fields := by
      rw [List.filter_eq_self]
      intro g hg; simp [hall g hg]
    simp [this]
  simp only [ModelSig.removeField, hutEq, hfEq]

/-- add…delete elimination: adding a field and deleting it again leaves the model as it was
(when no `unique_together` entry names the field and the field is not a primary key) -/
theorem C03_rule_add_delete (e : Env) (field ftype : String) (init : Option Val)
    (attrs : List (String × Val)) (m m1 : ModelSig)
    (hnew : m.getField field = none)
    (hut : ∀ entry ∈ m.uniqueTogether, field ∉ entry ∧ entry ≠ [])
    (hpk : ∀ f : FieldSig, f.name = field → f.ftype = ftype → f.attrs = popKey attrs "related_model" →
            truthy (e.attrValue f "primary_key") = false)
    (h1 : simAddField field ftype init attrs m = .ok m1) :
    simDeleteField e field m1 = .ok m := by
  unfold simAddField at h1
  simp only [hnew, Option.isSome_none, Bool.false_eq_true, if_false] at h1
  split at h1
  · cases h1
  · injection h1 with h1
    subst h1
    exact delete_after_add e _ m hnew hut (hpk _ rfl rfl rfl)

/-! ## what is false today -/

def ex2 : List String := ["Alpha", "Beta"]

/-- F4: processing rewrites the evolution definitions.  `[AddField x, RenameField x→b]` is
optimised to `[AddField b]`, and the *original* `AddField` object now says `b`… -/
theorem C03_cex_defs_rewritten :
    preprocess ex2 [.addField "Alpha" "x" "IntegerField" (some "1") [], .renameField "Alpha" "x" "b" none none] =
      .ok ([.addField "Alpha" "b" "IntegerField" (some "1") []],
           [.addField "Alpha" "b" "IntegerField" (some "1") [], .renameField "Alpha" "x" "b" none none]) := by
  decide

/-- …so a second pass over the same objects (`EvolveAppTask.prepare`, then `_build_batches`)
keeps the rename, which now names a field that does not exist. -/
theorem C03_cex_second_pass_differs :
    preprocess ex2 [.addField "Alpha" "b" "IntegerField" (some "1") [], .renameField "Alpha" "x" "b" none none] =
      .ok ([.addField "Alpha" "b" "IntegerField" (some "1") [], .renameField "Alpha" "x" "b" none none],
           [.addField "Alpha" "b" "IntegerField" (some "1") [], .renameField "Alpha" "x" "b" none none]) := by
  decide

/-- the optimiser in the current source starts with `mutations = copy.deepcopy(mutations)`
(regenerated on every run; finding F4 repaired) -/
theorem C03_source_copies : DEvo.Generated.optimizerCopies = true := by decide

/-- **processing leaves the evolution definitions exactly as they were**, and therefore a second
processing of the same definitions gives the same optimised list as the first (what
`EvolveAppTask.prepare` previews is what `_build_batches` executes) -/
theorem C03_defs_unchanged (existing : List String) (ms out arr : List Mutation)
    (h : preprocessC DEvo.Generated.optimizerCopies existing ms = .ok (out, arr)) :
    arr = ms ∧ preprocessC DEvo.Generated.optimizerCopies existing arr = .ok (out, arr) := by
  rw [C03_source_copies] at h ⊢
  unfold preprocessC at h ⊢
  simp only [if_true] at h ⊢
  cases hp : preprocess existing ms with
  | error e => simp [hp, Except.map] at h
  | ok r =>
    simp only [hp, Except.map] at h
    injection h with h
    have h2 : arr = ms := (Prod.mk.inj h).2.symm
    have h1 : r.1 = out := (Prod.mk.inj h).1
    refine ⟨h2, ?_⟩
    rw [h2, hp]
    simp [Except.map, h1]

/-- F19: a self-rename followed by another rename raises `KeyError` inside the optimiser. -/
theorem C03_cex_self_rename_keyerror :
    preprocess ex2 [.renameField "Alpha" "a" "a" none none, .renameField "Alpha" "a" "c" none none] =
      .error (.keyError "renames[old_mutation_id]") := by
  decide

/-- F20: name reuse — `[DeleteField a, AddField a, DeleteField a]` loses the *first* delete,
so the batched run keeps column `a`. -/
theorem C03_cex_name_reuse :
    (preprocess ex2 [.deleteField "Alpha" "a", .addField "Alpha" "a" "IntegerField" (some "1") [],
                     .deleteField "Alpha" "a"]).toOption.map (·.1) = some [] := by
  decide

/-- F21: rolling `ChangeField(initial='z')` into the preceding `AddField(initial='x')`
overwrites the initial value that existing rows receive. -/
theorem C03_cex_initial_overwritten :
    (preprocess ex2 [.addField "Alpha" "d" "CharField" (some "\"x\"") [("max_length", "5")],
                     .changeField "Alpha" "d" none (some "\"z\"") [("null", "false")]]).toOption.map (·.1) =
      some [.addField "Alpha" "d" "CharField" (some "\"z\"") [("max_length", "5"), ("null", "false")]] := by
  decide

/-- F24: regrouping by *sorted* model name moves a mutation on a renamed model in front of the
rename that creates that name (`Al` < `Beta`). -/
theorem C03_cex_regroup_across_rename :
    (preprocess ex2 [.renameModel "Beta" "Al" "vapp_beta",
                     .changeField "Al" "a" none none [("null", "true")]]).toOption.map (·.1) =
      some [.changeField "Al" "a" none none [("null", "true")], .renameModel "Beta" "Al" "vapp_beta"] := by
  decide

/-! ## instances evaluated by the kernel (tests of the transliterated optimiser, not unbounded claims) -/

/-- of two `ChangeMeta` of one property in a batch the LAST one is what is left (each carries the complete value) -/
example : (preprocess ["Alpha", "Beta"] [.changeMeta "Alpha" "indexes" (.sigs ["i1", "i2"]),
      .changeMeta "Alpha" "indexes" (.sigs ["i1"])]).toOption.map (·.1)
    = some [.changeMeta "Alpha" "indexes" (.sigs ["i1"])] := by decide

/-- ... also across another mutation of the model -/
example : (preprocess ["Alpha", "Beta"] [.changeMeta "Alpha" "unique_together" (.together [["a", "b"]]),
      .addField "Alpha" "c" "IntegerField" none [], .changeMeta "Alpha" "unique_together" (.together [["a", "c"]])]).toOption.map (·.1)
    = some [.addField "Alpha" "c" "IntegerField" none [], .changeMeta "Alpha" "unique_together" (.together [["a", "c"]])] := by
  decide

/-! ## the optimiser's final filter: `mutation not in removed_mutations` -/

/-- membership in the Python set of removed mutations: by identity when mutations hash by `id(self)`;
otherwise (a hash that equal-looking mutations share) `__eq__`, i.e. the same hint text, decides -/
def finalFilter (hashById : Bool) (texts : List String) (removed : List Nat) : List Nat :=
  (List.range texts.length).filter (fun i =>
    if hashById then !removed.contains i
    else !(removed.any (fun r => texts.getD r "" == texts.getD i "")))

/-- **exactly the mutations the optimiser marked are dropped**, whatever the others look like: a
mutation with the same text as a removed one stays (this is what `processBatch` assumes) -/
theorem C03_filter_by_identity (texts : List String) (removed : List Nat) (i : Nat) :
    i ∈ finalFilter true texts removed ↔ i < texts.length ∧ i ∉ removed := by
  simp [finalFilter, List.mem_filter, List.mem_range]

/-- the source hashes mutations by identity (read by the translator on every run) -/
theorem C03_source_hash_identity : DEvo.Generated.mutationHashById = true := by decide

/-- with a hash shared by equal-looking mutations the surviving twin of a removed mutation goes, too -/
theorem C03_cex_hash_by_type :
    finalFilter false ["ChangeField a", "AddField b", "ChangeField a"] [0] = [1] ∧
    finalFilter true ["ChangeField a", "AddField b", "ChangeField a"] [0] = [1, 2] := by decide

/-- "the last ChangeMeta of a property wins": the optimiser model keeps one table per property
(`uniqueTogether`, `metaIndexes`), and so does the source - in both passes each property tests, writes
and reads its own table only (read by the translator on every run) -/
theorem C03_source_meta_slots : DEvo.Generated.metaSlots =
    ["unique_together: unique_together", "indexes: model_meta_indexes",
     "unique_together: unique_together", "indexes: model_meta_indexes"] := by decide

/-- the roll-up hands on every initial value that is SET - the model goes by `some`/`none`, never by the
value: a `ChangeField` with initial `0`, `''` or `False` passes it to the mutation it is folded into -/
theorem C03_rollup_keeps_set_initial (m f m' f' : String) (sft : Option String) (v : Val)
    (sattrs attrs : List (String × Val)) (ft : String) (init : Option Val) :
    copyChangeAttrs (.changeField m' f' sft (some v) sattrs) (.addField m f ft init attrs) =
      .addField m f (sft.getD ft) (some v) (dUpdate attrs sattrs) := by
  cases sft <;> simp [copyChangeAttrs]

/-- ... which is how the source decides, too: `is not None` (read by the translator on every run) -/
theorem C03_source_copy_change_attrs : DEvo.Generated.copyChangeAttrsBody =
    ["dest_mutation.field_attrs.update(source_mutation.field_attrs)",
     "if source_mutation.field_type is not None: ;     dest_mutation.field_type = source_mutation.field_type",
     "if source_mutation.initial is not None: ;     dest_mutation.initial = source_mutation.initial"] := by decide

end DEvo.Props.C03
