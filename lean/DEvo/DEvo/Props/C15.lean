import DEvo.Props.C01
import DEvo.Generated.Tables

/-! # C15 — purging and deleting remove exactly what was named, nothing else -/

namespace DEvo.Props.C15
open DEvo.Sig DEvo.Mut DEvo.Sql DEvo.Opt

/-- the tables a model owns: its own table and the auto-created tables of its many-to-many
fields (`db_table` attribute, else `<table>_<field>`) -/
def tablesOf (m : ModelSig) : List String :=
  m.table :: (m.fields.filter (fun f => isM2M f.ftype)).map (fun f =>
    match dGet f.attrs "db_table" with
    | some v => if v == vNull then m.table ++ "_" ++ f.name else unq v
    | none => m.table ++ "_" ++ f.name)

/-- **DeleteModel removes exactly the named model's entry**: afterwards the app holds the other
models, each exactly as before, in the same order; every other app is the same object -/
theorem C15_deleteModel_exact (e : Env) (fl : Flags) (c : Ctx) (model : String) (p p' : ProjectSig) (c' : Ctx)
    (h : simulate e fl c (.deleteModel model) p = .ok (p', c')) :
    ∃ a, getAppSig c p = .ok a ∧
      p' = p.putApp { a with models := a.models.filter (fun m => !(m.name == model)) } ∧ c' = c := by
  unfold simulate at h
  simp only [simModelLocal] at h
  cases hg : getModelSig c p model with
  | error err => simp [hg, bind, Except.bind] at h
  | ok am =>
    obtain ⟨a, m⟩ := am
    simp only [hg, bind, Except.bind, pure, Except.pure] at h
    injection h with h
    injection h with hp hc
    refine ⟨a, ?_, hp.symm, hc.symm⟩
    unfold getModelSig at hg
    cases hga : getAppSig c p with
    | error err => simp [hga, bind, Except.bind] at hg
    | ok a2 =>
      simp only [hga, bind, Except.bind] at hg
      split at hg
      · injection hg with hg; injection hg with h1 _; rw [h1]
      · cases hg

/-- **DeleteApplication removes exactly the app's model entries** -/
theorem C15_deleteApplication_exact (e : Env) (fl : Flags) (c : Ctx) (p p' : ProjectSig) (c' : Ctx)
    (hdb : c.hasDatabase = true) (h : simulate e fl c .deleteApplication p = .ok (p', c')) :
    ∃ a, getAppSig c p = .ok a ∧ p' = p.putApp { a with models := [] } ∧ c' = c := by
  unfold simulate at h
  simp only [simModelLocal, hdb, Bool.not_true, Bool.false_eq_true, if_false] at h
  cases hga : getAppSig c p with
  | error err => simp [hga, bind, Except.bind] at h
  | ok a =>
    simp only [hga, bind, Except.bind, pure, Except.pure] at h
    injection h with h
    injection h with hp hc
    exact ⟨a, rfl, hp.symm, hc.symm⟩

/-- **frame**: replacing an app's entry leaves every app with another id untouched -/
theorem C15_frame_other_apps (p : ProjectSig) (a' : AppSig) (b : AppSig) (hb : b ∈ p.apps) (hid : b.id ≠ a'.id) :
    b ∈ (p.putApp a').apps := mem_putApp_other hb hid

/-- …and inside the app, every model other than the deleted one is kept as it is -/
theorem C15_frame_other_models (a : AppSig) (model : String) (m : ModelSig) (hm : m ∈ a.models)
    (hne : m.name ≠ model) : m ∈ a.models.filter (fun x => !(x.name == model)) := by
  simp only [List.mem_filter]
  exact ⟨hm, by simpa using hne⟩

/-- without a database name (no explicit request against a database) `DeleteApplication`
changes nothing -/
theorem C15_no_database_no_change (e : Env) (fl : Flags) (c : Ctx) (p : ProjectSig)
    (hdb : c.hasDatabase = false) : simulate e fl c .deleteApplication p = .ok (p, c) := by
  unfold simulate
  simp [simModelLocal, hdb, pure, Except.pure]

def bookModel : ModelSig :=
  { name := "Book", table := "a_book", pkColumn := "\"id\"",
    fields := [⟨"tags", "ManyToManyField", [], some "a.Tag"⟩],
    uniqueTogether := [], utApplied := true, indexTogether := [], indexes := [],
    constraints := [], comment := "null", tablespace := "null" }

/-- prefix table names are different tables: the owned tables of `a_book` are `a_book` and
`a_book_tags`, not `a_book_extra` -/
example : tablesOf bookModel = ["a_book", "a_book_tags"] ∧ "a_book_extra" ∉ tablesOf bookModel := by decide

/-! ## the purge's clean-up of the stored signature -/

/-- what `PurgeAppTask.prepare` does to the signature after the app's models were deleted: `own` removes the
purged app's entry when it is empty; `allEmpty` (a seeded variant) removes every empty entry -/
inductive Cleanup where
  | own | allEmpty | nothing
  deriving DecidableEq, Repr

def purgeCleanup (mode : Cleanup) (p : ProjectSig) (label : String) : ProjectSig :=
  match mode with
  | .own => match p.apps.find? (fun a => a.id == label) with
    | some a => if a.models.isEmpty then p.removeApp a.id else p
    | none => p
  | .allEmpty => { apps := p.apps.filter (fun a => !a.models.isEmpty) }
  | .nothing => p

/-- **a purge touches no other app's entry**: whatever the purged app and the rest of the project look like,
every entry of another app - empty ones included - is still there, unchanged, after the clean-up -/
theorem C15_purge_frame (p : ProjectSig) (label : String) (b : AppSig) (hb : b ∈ p.apps) (hne : b.id ≠ label) :
    b ∈ (purgeCleanup .own p label).apps := by
  unfold purgeCleanup
  cases hf : p.apps.find? (fun a => a.id == label) with
  | none => exact hb
  | some a =>
    have ha : a.id = label := by
      have := List.find?_some hf
      simpa using this
    by_cases he : a.models.isEmpty = true
    · simp only [he, if_true, ProjectSig.removeApp, List.mem_filter]
      refine ⟨hb, ?_⟩
      simp only [Bool.not_eq_true', beq_eq_false_iff_ne, ne_eq]
      rw [ha]; exact hne
    · simp only [he]
      exact hb

/-- ... and nothing is added -/
theorem C15_purge_no_new_entries (p : ProjectSig) (label : String) (b : AppSig)
    (hb : b ∈ (purgeCleanup .own p label).apps) : b ∈ p.apps := by
  unfold purgeCleanup at hb
  cases hf : p.apps.find? (fun a => a.id == label) with
  | none => simpa [hf] using hb
  | some a =>
    simp only [hf] at hb
    by_cases he : a.models.isEmpty = true
    · simp only [he, if_true, ProjectSig.removeApp, List.mem_filter] at hb
      exact hb.1
    · simpa [he] using hb

/-- the clean-up of the current source is the `own` one (read by the translator on every run) -/
theorem C15_source_purge_cleanup : DEvo.Generated.purgeCleanup = "own" := by decide

/-- removing every empty entry loses the entry of an installed app that has no models (any more) -/
theorem C15_cex_all_empty_entries_removed :
    let keep : AppSig := { id := "shop", legacy := "shop", upgradeMethod := some "evolutions", appliedMigrations := none, models := [] }
    let gone : AppSig := { id := "old", legacy := "old", upgradeMethod := some "evolutions", appliedMigrations := none, models := [] }
    keep ∉ (purgeCleanup .allEmpty ⟨[keep, gone]⟩ "old").apps ∧ keep ∈ (purgeCleanup .own ⟨[keep, gone]⟩ "old").apps := by
  decide

/-! ## the purged app's own entry goes -/

/-- what `AppSignature.is_empty()` looks at: the model entries only (the source), or also the recorded
migrations (a variant) -/
inductive EmptyTest where
  | models | modelsAndMigrations
  deriving DecidableEq, Repr

def EmptyTest.holds : EmptyTest → AppSig → Bool
  | .models, a => a.models.isEmpty
  | .modelsAndMigrations, a => a.models.isEmpty && (a.appliedMigrations.getD []).isEmpty

/-- the `own` clean-up with the emptiness test as a parameter -/
def purgeOwn (t : EmptyTest) (p : ProjectSig) (label : String) : ProjectSig :=
  match p.apps.find? (fun a => a.id == label) with
  | some a => if t.holds a then p.removeApp a.id else p
  | none => p

theorem purgeOwn_models (p : ProjectSig) (label : String) : purgeOwn .models p label = purgeCleanup .own p label := rfl

/-- the purge of an app: its models are deleted (`DeleteApplication`: the entry keeps its id, its upgrade method and
its recorded migrations, and has no models left), then the clean-up runs -/
def purgeApp (t : EmptyTest) (p : ProjectSig) (label : String) : ProjectSig :=
  match p.apps.find? (fun a => a.id == label) with
  | some a => purgeOwn t (p.putApp { a with models := [] }) label
  | none => p

theorem purgeOwn_removes (p : ProjectSig) (label : String)
    (hempty : ∀ b ∈ p.apps, b.id = label → b.models = []) :
    ∀ b ∈ (purgeOwn .models p label).apps, b.id ≠ label := by
  intro b hb
  unfold purgeOwn at hb
  cases hf : p.apps.find? (fun a => a.id == label) with
  | none =>
    rw [hf] at hb
    have := List.find?_eq_none.mp hf b hb
    simpa using this
  | some a =>
    rw [hf] at hb
    have ha : a.id = label := by simpa using List.find?_some hf
    have hm : a.models = [] := hempty a (List.mem_of_find?_eq_some hf) ha
    simp only [EmptyTest.holds, hm, List.isEmpty_nil, if_true, ProjectSig.removeApp, List.mem_filter,
      Bool.not_eq_true', beq_eq_false_iff_ne, ne_eq] at hb
    rw [ha] at hb
    exact hb.2

/-- **after a purge no entry of the purged app is left**, whatever the app recorded (upgrade method, applied
migrations) and whatever else the project contains - when emptiness looks at the models only -/
theorem C15_purge_removes_own_entry (p : ProjectSig) (label : String) :
    ∀ b ∈ (purgeApp .models p label).apps, b.id ≠ label := by
  unfold purgeApp
  cases hf : p.apps.find? (fun a => a.id == label) with
  | none =>
    intro b hb
    have := List.find?_eq_none.mp hf b hb
    simpa using this
  | some a =>
    have ha : a.id = label := by simpa using List.find?_some hf
    apply purgeOwn_removes
    intro b hb hid
    simp only [ProjectSig.putApp, List.mem_map] at hb
    obtain ⟨c, _, hc⟩ := hb
    by_cases h : (c.id == a.id) = true
    · simp only [h, if_true] at hc
      rw [← hc]
    · simp only [h, Bool.false_eq_true, if_false] at hc
      rw [hc] at h
      rw [hid, ha] at h
      simp at h

/-- the emptiness test of the current source looks at the models only (read by the translator on every run) -/
theorem C15_source_is_empty : DEvo.Generated.appSigIsEmpty = "models" := by decide

/-- an emptiness test that also wants the recorded migrations gone leaves the entry of a stale app that had been
handed over to Django migrations behind -/
theorem C15_cex_entry_with_migrations_stays :
    let wiki : AppSig := { id := "wiki", legacy := "wiki", upgradeMethod := some "migrations",
                           appliedMigrations := some ["0001_initial"], models := [] }
    (purgeApp .modelsAndMigrations ⟨[wiki]⟩ "wiki").apps = [wiki] ∧ (purgeApp .models ⟨[wiki]⟩ "wiki").apps = [] := by
  decide

/-! ## which stored apps count as deleted (what a purge may take) -/

/-- `ProjectSignature.diff`: a stored app is deleted when the current signature has no counterpart for its id -
looked up with `get_app_sig` (by id, else by legacy label) -/
def deletedApps (stored current : ProjectSig) : List String :=
  (stored.apps.filter (fun a => (current.getApp a.id).isNone)).map (·.id)

/-- **an installed app that was given a new label is not stale**: if some current app carries the stored id as its
legacy label (or as its id), the stored app is not among the deleted ones, whatever else the project contains -/
theorem C15_relabelled_app_not_deleted (stored current : ProjectSig) (a b : AppSig) (hb : b ∈ current.apps)
    (hl : b.legacy = a.id ∨ b.id = a.id) : a.id ∉ deletedApps stored current := by
  have hsome : (current.getApp a.id).isSome = true := by
    unfold ProjectSig.getApp
    cases hf : current.apps.find? (fun x => x.id == a.id) with
    | some x => rfl
    | none =>
      rcases hl with hl | hl
      · cases hg : current.apps.find? (fun x => x.legacy == a.id) with
        | some y => simp [hf]
        | none =>
          have := List.find?_eq_none.mp hg b hb
          simp [hl] at this
      · have := List.find?_eq_none.mp hf b hb
        simp [hl] at this
  intro hmem
  unfold deletedApps at hmem
  simp only [List.mem_map, List.mem_filter] at hmem
  obtain ⟨c, ⟨_, hnone⟩, hid⟩ := hmem
  rw [hid] at hnone
  have hn : current.getApp a.id = none := by simpa using hnone
  rw [hn] at hsome
  exact absurd hsome (by simp)

/-- the source uses that lookup (read by the translator on every run) -/
theorem C15_source_deleted_lookup : DEvo.Generated.deletedAppsLookup = "get_app_sig" := by decide

/-- a purge is queued for exactly the apps the initial difference lists as deleted - the apps that are no
longer installed -, never for an installed app whose models are merely gone (read by the translator on
every run) -/
theorem C15_source_purge_queue : DEvo.Generated.purgeQueueBody =
    ["for app_label in self.initial_diff.deleted: ;     self.queue_purge_app(app_label)"] := by decide

end DEvo.Props.C15
