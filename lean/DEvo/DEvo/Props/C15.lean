import DEvo.Props.C01

/-! # C15 — purging and deleting remove exactly what was named, nothing else -/

namespace DEvo.Props.C15
open DEvo.Sig DEvo.Mut DEvo.Sql DEvo.Opt

/-- the tables a model owns: its own table and the auto-created tables of its many-to-many
fields (`db_table` attribute, else `<table>_<field>`) -/
def tablesOf (m : ModelSig) : List String :=
  m.table :: (m.fields.filter (fun f => isM2M f.ftype)).map (fun f =>
    match dGet f.attrs "db_table" with
    | some v => if v == vNull then m.table ++ "_" ++ f.name else unq v
    | none => m.table ++ "_" ++ f.name)

/-- **DeleteModel removes exactly the named model's entry**: afterwards the app holds the other
models, each exactly as before, in the same order; every other app is the same object -/
theorem C15_deleteModel_exact (e : Env) (fl : Flags) (c : Ctx) (model : String) (p p' : ProjectSig) (c' : Ctx)
    (h : simulate e fl c (.deleteModel model) p = .ok (p', c')) :
    ∃ a, getAppSig c p = .ok a ∧
      p' = p.putApp { a with models := a.models.filter (fun m => !(m.name == model)) } ∧ c' = c := by
  unfold simulate at h
  simp only [simModelLocal] at h
  cases hg : getModelSig c p model with
  | error err => simp [hg, bind, Except.bind] at h
  | ok am =>
    obtain ⟨a, m⟩ := am
    simp only [hg, bind, Except.bind, pure, Except.pure] at h
    injection h with h
    injection h with hp hc
    refine ⟨a, ?_, hp.symm, hc.symm⟩
    unfold getModelSig at hg
    cases hga : getAppSig c p with
    | error err => simp [hga, bind, Except.bind] at hg
    | ok a2 =>
      simp only [hga, bind, Except.bind] at hg
      split at hg
      · injection hg with hg; injection hg with h1 _; rw [h1]
      · cases hg

/-- **DeleteApplication removes exactly the app's model entries** -/
theorem C15_deleteApplication_exact (e : Env) (fl : Flags) (c : Ctx) (p p' : ProjectSig) (c' : Ctx)
    (hdb : c.hasDatabase = true) (h : simulate e fl c .deleteApplication p = .ok (p', c')) :
    ∃ a, getAppSig c p = .ok a ∧ p' = p.putApp { a with models := [] } ∧ c' = c := by
  unfold simulate at h
  simp only [simModelLocal, hdb, Bool.not_true, Bool.false_eq_true, if_false] at h
  cases hga : getAppSig c p with
  | error err => simp [hga, bind, Except.bind] at h
  | ok a =>
    simp only [hga, bind, Except.bind, pure, Except.pure] at h
    injection h with h
    injection h with hp hc
    exact ⟨a, rfl, hp.symm, hc.symm⟩

/-- **frame**: replacing an app's entry leaves every app with another id untouched -/
theorem C15_frame_other_apps (p : ProjectSig) (a' : AppSig) (b : AppSig) (hb : b ∈ p.apps) (hid : b.id ≠ a'.id) :
    b ∈ (p.putApp a').apps := mem_putApp_other hb hid

/-- …and inside the app, every model other than the deleted one is kept as it is -/
theorem C15_frame_other_models (a : AppSig) (model : String) (m : ModelSig) (hm : m ∈ a.models)
    (hne : m.name ≠ model) : m ∈ a.models.filter (fun x => !(x.name == model)) := by
  simp only [List.mem_filter]
  exact ⟨hm, by simpa using hne⟩

/-- without a database name (no explicit request against a database) `DeleteApplication`
changes nothing -/
theorem C15_no_database_no_change (e : Env) (fl : Flags) (c : Ctx) (p : ProjectSig)
    (hdb : c.hasDatabase = false) : simulate e fl c .deleteApplication p = .ok (p, c) := by
  unfold simulate
  simp [simModelLocal, hdb, pure, Except.pure]

def bookModel : ModelSig :=
  { name := "Book", table := "a_book", pkColumn := "\"id\"",
    fields := [⟨"tags", "ManyToManyField", [], some "a.Tag"⟩],
    uniqueTogether := [], utApplied := true, indexTogether := [], indexes := [],
    constraints := [], comment := "null", tablespace := "null" }

/-- prefix table names are different tables: the owned tables of `a_book` are `a_book` and
`a_book_tags`, not `a_book_extra` -/
example : tablesOf bookModel = ["a_book", "a_book_tags"] ∧ "a_book_extra" ∉ tablesOf bookModel := by decide

end DEvo.Props.C15
