import Lean.Data.Json
import DEvo.Mut.Env
import DEvo.Sig.Diff
import DEvo.Ser.Sig
import DEvo.Ser.Py

/-! JSON codecs of the driver protocol (not part of the verified library). -/

open Lean DEvo DEvo.Sig DEvo.Mut

namespace Codec

def optStr (j : Json) (k : String) : Except String (Option String) :=
  match j.getObjVal? k with
  | .ok Json.null => pure none
  | .ok v => do let s ← v.getStr?; pure (some s)
  | .error _ => pure none

def strList (j : Json) : Except String (List String) := do
  let a ← j.getArr?
  a.toList.mapM (fun x => x.getStr?)

def strListList (j : Json) : Except String (List (List String)) := do
  let a ← j.getArr?
  a.toList.mapM strList

/-- attribute values are JSON text, except `related_model`, which the model carries raw -/
def unquote (v : String) : String :=
  if v.startsWith "\"" && v.endsWith "\"" && v.length ≥ 2 then ((v.drop 1).dropEnd 1).toString else v

def pairs (j : Json) : Except String (List (String × String)) := do
  let a ← j.getArr?
  a.toList.mapM (fun p => do
    let q ← p.getArr?
    match q.toList with
    | [k, v] => do
      let k ← k.getStr?
      let v ← v.getStr?
      pure (k, if k == "related_model" then unquote v else v)
    | _ => throw "bad pair")

def fieldOf (j : Json) : Except String FieldSig := do
  pure ⟨← j.getObjValAs? String "name", ← j.getObjValAs? String "type",
        ← pairs (← j.getObjVal? "attrs"), ← optStr j "related"⟩

def modelOf (j : Json) : Except String ModelSig := do
  let fs ← (← j.getObjVal? "fields").getArr?
  pure { name := ← j.getObjValAs? String "name", table := ← j.getObjValAs? String "table",
         pkColumn := ← j.getObjValAs? String "pk_column",
         fields := ← fs.toList.mapM fieldOf,
         uniqueTogether := ← strListList (← j.getObjVal? "unique_together"),
         utApplied := ← j.getObjValAs? Bool "ut_applied",
         indexTogether := ← strListList (← j.getObjVal? "index_together"),
         indexes := ← strList (← j.getObjVal? "indexes"),
         constraints := ← strList (← j.getObjVal? "constraints"),
         comment := ← j.getObjValAs? String "comment",
         tablespace := ← j.getObjValAs? String "tablespace" }

def appOf (j : Json) : Except String AppSig := do
  let ms ← (← j.getObjVal? "models").getArr?
  let am ← match j.getObjVal? "applied_migrations" with
    | .ok Json.null => pure none
    | .ok v => do pure (some (← strList v))
    | .error _ => pure none
  pure { id := ← j.getObjValAs? String "id", legacy := ← j.getObjValAs? String "legacy",
         upgradeMethod := ← optStr j "upgrade_method", appliedMigrations := am,
         models := ← ms.toList.mapM modelOf }

def sigOf (j : Json) : Except String ProjectSig := do
  let as ← (← j.getObjVal? "apps").getArr?
  pure { apps := ← as.toList.mapM appOf }

def jStrs (l : List String) : Json := Json.arr (l.map Json.str).toArray
def jOpt (o : Option String) : Json := match o with | some s => Json.str s | none => Json.null
def jPairs (l : List (String × String)) : Json :=
  Json.arr (l.map (fun p => Json.arr #[Json.str p.1,
    Json.str (if p.1 == "related_model" && p.2 != "null" then "\"" ++ p.2 ++ "\"" else p.2)])).toArray

def fieldJ (f : FieldSig) : Json :=
  Json.mkObj [("name", f.name), ("type", f.ftype), ("attrs", jPairs f.attrs), ("related", jOpt f.related)]

def modelJ (m : ModelSig) : Json :=
  Json.mkObj [("name", m.name), ("table", m.table), ("pk_column", m.pkColumn),
    ("fields", Json.arr (m.fields.map fieldJ).toArray),
    ("unique_together", Json.arr (m.uniqueTogether.map jStrs).toArray),
    ("ut_applied", m.utApplied),
    ("index_together", Json.arr (m.indexTogether.map jStrs).toArray),
    ("indexes", jStrs m.indexes), ("constraints", jStrs m.constraints),
    ("comment", m.comment), ("tablespace", m.tablespace)]

def appJ (a : AppSig) : Json :=
  Json.mkObj [("id", a.id), ("legacy", a.legacy), ("upgrade_method", jOpt a.upgradeMethod),
    ("applied_migrations", match a.appliedMigrations with | some l => jStrs l | none => Json.null),
    ("models", Json.arr (a.models.map modelJ).toArray)]

def sigJ (p : ProjectSig) : Json := Json.mkObj [("apps", Json.arr (p.apps.map appJ).toArray)]

def mutOf (j : Json) : Except String Mutation := do
  let t ← j.getObjValAs? String "t"
  match t with
  | "AddField" => pure (.addField (← j.getObjValAs? String "model") (← j.getObjValAs? String "field")
      (← j.getObjValAs? String "ftype") (← optStr j "initial") (← pairs (← j.getObjVal? "attrs")))
  | "ChangeField" => pure (.changeField (← j.getObjValAs? String "model") (← j.getObjValAs? String "field")
      (← optStr j "ftype") (← optStr j "initial") (← pairs (← j.getObjVal? "attrs")))
  | "DeleteField" => pure (.deleteField (← j.getObjValAs? String "model") (← j.getObjValAs? String "field"))
  | "RenameField" => pure (.renameField (← j.getObjValAs? String "model") (← j.getObjValAs? String "old")
      (← j.getObjValAs? String "new") (← optStr j "db_column") (← optStr j "db_table"))
  | "ChangeMeta" => do
    let kind ← j.getObjValAs? String "kind"
    let v ← j.getObjVal? "value"
    let mv ← match kind with
      | "together" => do pure (MetaVal.together (← strListList v))
      | "sigs" => do pure (MetaVal.sigs (← strList v))
      | _ => do pure (MetaVal.raw (← v.getStr?))
    pure (.changeMeta (← j.getObjValAs? String "model") (← j.getObjValAs? String "prop") mv)
  | "RenameModel" => pure (.renameModel (← j.getObjValAs? String "old") (← j.getObjValAs? String "new")
      (← j.getObjValAs? String "db_table"))
  | "DeleteModel" => pure (.deleteModel (← j.getObjValAs? String "model"))
  | "DeleteApplication" => pure .deleteApplication
  | "RenameAppLabel" => do
    let names ← match j.getObjVal? "models" with
      | .ok Json.null => pure none
      | .ok v => do pure (some (← strList v))
      | .error _ => pure none
    pure (.renameAppLabel (← j.getObjValAs? String "old") (← j.getObjValAs? String "new")
      (← optStr j "legacy") names)
  | "SQLMutation" => pure (.sqlMutation (← j.getObjValAs? String "tag") (← j.getObjValAs? Bool "can_simulate"))
  | _ => throw s!"unknown mutation {t}"

def mutJ : Mutation → Json
  | .addField m f t i a => Json.mkObj [("t", "AddField"), ("model", m), ("field", f), ("ftype", t),
      ("initial", jOpt i), ("attrs", jPairs a)]
  | .changeField m f t i a => Json.mkObj [("t", "ChangeField"), ("model", m), ("field", f), ("ftype", jOpt t),
      ("initial", jOpt i), ("attrs", jPairs a)]
  | .deleteField m f => Json.mkObj [("t", "DeleteField"), ("model", m), ("field", f)]
  | .renameField m o n c t => Json.mkObj [("t", "RenameField"), ("model", m), ("old", o), ("new", n),
      ("db_column", jOpt c), ("db_table", jOpt t)]
  | .changeMeta m p v => Json.mkObj [("t", "ChangeMeta"), ("model", m), ("prop", p),
      ("kind", match v with | .together _ => "together" | .sigs _ => "sigs" | .raw _ => "raw"),
      ("value", match v with
        | .together l => Json.arr (l.map jStrs).toArray
        | .sigs l => jStrs l
        | .raw s => Json.str s)]
  | .renameModel o n t => Json.mkObj [("t", "RenameModel"), ("old", o), ("new", n), ("db_table", t)]
  | .deleteModel m => Json.mkObj [("t", "DeleteModel"), ("model", m)]
  | .deleteApplication => Json.mkObj [("t", "DeleteApplication")]
  | .renameAppLabel o n l ms => Json.mkObj [("t", "RenameAppLabel"), ("old", o), ("new", n),
      ("legacy", jOpt l), ("models", match ms with | some x => jStrs x | none => Json.null)]
  | .sqlMutation tag c => Json.mkObj [("t", "SQLMutation"), ("tag", tag), ("can_simulate", c)]

def ctxOf (j : Json) : Except String Ctx := do
  let app ← j.getObjValAs? String "app"
  let legacy ← match optStr j "legacy" with | .ok (some l) => pure l | _ => pure app
  let hasDb ← match j.getObjValAs? Bool "has_db" with | .ok b => pure b | .error _ => pure true
  pure { appLabel := app, legacyAppLabel := legacy, hasDatabase := hasDb }

def flagsOf (j : Json) : Flags :=
  match j.getObjVal? "flags" with
  | .ok f => { renameAppLabelFixed := (f.getObjValAs? Bool "rename_app_label_fixed").toOption.getD false }
  | .error _ => {}

def modelDiffJ (d : ModelDiff) : Json :=
  Json.mkObj [("added", jStrs d.added),
    ("changed", Json.arr (d.changed.map (fun p => Json.arr #[Json.str p.1, jStrs p.2])).toArray),
    ("deleted", jStrs d.deleted), ("meta_changed", jStrs d.metaChanged)]

def appDiffJ (d : AppDiff) : Json :=
  Json.mkObj [("changed", Json.arr (d.changed.map (fun p => Json.arr #[Json.str p.1, modelDiffJ p.2])).toArray),
    ("deleted", jStrs d.deleted), ("meta_changed", jStrs d.metaChanged)]

def projDiffJ (d : ProjDiff) : Json :=
  Json.mkObj [("changed", Json.arr (d.changed.map (fun p => Json.arr #[Json.str p.1, appDiffJ p.2])).toArray),
    ("deleted", Json.arr (d.deleted.map (fun p => Json.arr #[Json.str p.1, jStrs p.2])).toArray)]

open DEvo.Ser in
mutual
partial def vOf (j : Json) : Except String V := do
  let t ← j.getObjValAs? String "t"
  match t with
  | "null" => pure .null
  | "int" => do pure (.int (← (← j.getObjVal? "v").getInt?))
  | "str" => do pure (.str (← j.getObjValAs? String "v"))
  | "bool" => do pure (.bool (← j.getObjValAs? Bool "v"))
  | "list" => do pure (.list (← vlOf (← j.getObjVal? "v")))
  | "tuple" => do pure (.tuple (← vlOf (← j.getObjVal? "v")))
  | "dict" => do pure (.dict (← vdOf (← j.getObjVal? "v")))
  | "q" => do
    let conn ← optStr j "conn"
    pure (.q conn (← j.getObjValAs? Bool "neg") (← vlOf (← j.getObjVal? "children")))
  | "obj" => do
    pure (.obj (← j.getObjValAs? String "type") (← vlOf (← j.getObjVal? "args")) (← vdOf (← j.getObjVal? "kwargs")))
  | "enum" => do pure (.enum (← j.getObjValAs? String "type") (← j.getObjValAs? String "name"))
  | _ => throw s!"bad value tag {t}"
partial def vlOf (j : Json) : Except String VL := do
  let a ← j.getArr?
  a.toList.foldrM (fun x acc => do pure (VL.cons (← vOf x) acc)) VL.nil
partial def vdOf (j : Json) : Except String VD := do
  let a ← j.getArr?
  a.toList.foldrM (fun p acc => do
    let q ← p.getArr?
    match q.toList with
    | [k, v] => do pure (VD.cons (← k.getStr?) (← vOf v) acc)
    | _ => throw "bad dict entry") VD.nil
end

open DEvo.Ser in
mutual
partial def vJ : V → Json
  | .null => Json.mkObj [("t", "null")]
  | .int i => Json.mkObj [("t", "int"), ("v", toJson i)]
  | .str s => Json.mkObj [("t", "str"), ("v", s)]
  | .bool b => Json.mkObj [("t", "bool"), ("v", b)]
  | .list xs => Json.mkObj [("t", "list"), ("v", Json.arr (vlJ xs).toArray)]
  | .tuple xs => Json.mkObj [("t", "tuple"), ("v", Json.arr (vlJ xs).toArray)]
  | .dict kvs => Json.mkObj [("t", "dict"), ("v", Json.arr (vdJ kvs).toArray)]
  | .q c n ch => Json.mkObj [("t", "q"), ("conn", jOpt c), ("neg", n), ("children", Json.arr (vlJ ch).toArray)]
  | .obj ty a k => Json.mkObj [("t", "obj"), ("type", ty), ("args", Json.arr (vlJ a).toArray),
      ("kwargs", Json.arr (vdJ k).toArray)]
  | .enum ty n => Json.mkObj [("t", "enum"), ("type", ty), ("name", n)]
partial def vlJ : VL → List Json
  | .nil => [] | .cons v t => vJ v :: vlJ t
partial def vdJ : VD → List Json
  | .nil => [] | .cons k v t => Json.arr #[Json.str k, vJ v] :: vdJ t
end

open DEvo.Ser in
mutual
/-- Python expression trees, in the shape `tools/vlib/pyast.py` gives to `ast.parse` output -/
partial def pyJ : Py → Json
  | .lit .none => Json.mkObj [("k", "lit"), ("v", Json.null)]
  | .lit (.bool b) => Json.mkObj [("k", "lit"), ("v", b)]
  | .lit (.int i) => Json.mkObj [("k", "lit"), ("v", toJson i)]
  | .lit (.str s) => Json.mkObj [("k", "lit"), ("v", s)]
  | .enumRef ty m => Json.mkObj [("k", "enum"), ("type", ty), ("member", m)]
  | .call p a kw => Json.mkObj [("k", "call"), ("path", p), ("args", Json.arr (pylJ a).toArray),
      ("kwargs", Json.arr (pydJ kw).toArray)]
  | .list xs => Json.mkObj [("k", "list"), ("v", Json.arr (pylJ xs).toArray)]
  | .tuple xs => Json.mkObj [("k", "tuple"), ("v", Json.arr (pylJ xs).toArray)]
  | .dict kvs => Json.mkObj [("k", "dict"), ("v", Json.arr (pydJ kvs).toArray)]
  | .inv e => Json.mkObj [("k", "inv"), ("e", pyJ e)]
  | .bin op l r => Json.mkObj [("k", "bin"), ("op", op.trimAscii.toString), ("l", pyJ l), ("r", pyJ r)]
  | .paren e => Json.mkObj [("k", "paren"), ("e", pyJ e)]
  | .meth r n a => Json.mkObj [("k", "meth"), ("recv", pyJ r), ("name", n), ("arg", pyJ a)]
  | .junk t => Json.mkObj [("k", "junk"), ("text", t)]
partial def pylJ : PyL → List Json
  | .nil => [] | .cons e t => pyJ e :: pylJ t
partial def pydJ : PyD → List Json
  | .nil => [] | .cons k e t => Json.arr #[Json.str k, pyJ e] :: pydJ t
end

open DEvo.Ser in
mutual
/-- the stored JSON text, as a JSON value (for comparison with json.dumps output) -/
partial def svJ : SV → Json
  | .null => Json.null | .int i => toJson i | .str s => Json.str s | .bool b => toJson b
  | .list xs => Json.arr (slJ xs).toArray | .tuple xs => Json.arr (slJ xs).toArray
  | .dict _ kvs => Json.mkObj (sdJ kvs)
partial def slJ : SL → List Json
  | .nil => [] | .cons v t => svJ v :: slJ t
partial def sdJ : SD → List (String × Json)
  | .nil => [] | .cons k v t => (k, svJ v) :: sdJ t
end

end Codec
