/-! Spike: C06 round trip over a mutually inductive value type. -/

mutual
inductive V where
  | null | int (i : Int) | str (s : String) | bool (b : Bool)
  | list (xs : VL) | tuple (xs : VL)
  | dict (kvs : VD)
  | q (conn : String) (neg : Bool) (children : VL)     -- children: tuples (k, v) or nested q
inductive VL where
  | nil | cons (v : V) (t : VL)
inductive VD where
  | nil | cons (k : String) (v : V) (t : VD)
end

mutual
inductive SV where            -- what json.loads(..., object_pairs_hook=OrderedDict) / serialize produce
  | null | int (i : Int) | str (s : String) | bool (b : Bool)
  | list (xs : SL) | tuple (xs : SL)
  | dict (ordered : Bool) (kvs : SD)
inductive SL where
  | nil | cons (v : SV) (t : SL)
inductive SD where
  | nil | cons (k : String) (v : SV) (t : SD)
end

mutual
def toSig : V → SV
  | .null => .null | .int i => .int i | .str s => .str s | .bool b => .bool b
  | .list xs => .list (toSigL xs) | .tuple xs => .tuple (toSigL xs)
  | .dict kvs => .dict false (toSigD kvs)
  | .q conn neg ch =>
      .dict false (.cons "_deconstructed" (.bool true)
        (.cons "args" (.list (toSigL ch))
        (.cons "kwargs" (.dict false (.cons "_connector" (.str conn) (.cons "_negated" (.bool neg) .nil)))
        (.cons "type" (.str "django.db.models.Q") .nil))))
def toSigL : VL → SL
  | .nil => .nil | .cons v t => .cons (toSig v) (toSigL t)
def toSigD : VD → SD
  | .nil => .nil | .cons k v t => .cons k (toSig v) (toSigD t)
end

mutual
def json : SV → SV
  | .list xs => .list (jsonL xs) | .tuple xs => .list (jsonL xs)
  | .dict _ kvs => .dict true (jsonD kvs)
  | v => v
def jsonL : SL → SL
  | .nil => .nil | .cons v t => .cons (json v) (jsonL t)
def jsonD : SD → SD
  | .nil => .nil | .cons k v t => .cons k (json v) (jsonD t)
end

/-- `strict = true` models today's `cls is dict` dispatch; `false` models `isinstance(value, dict)`. -/
def isDecon (strict : Bool) (ordered : Bool) (kvs : SD) : Bool :=
  (!(strict && ordered)) &&
  match kvs with
  | .cons "_deconstructed" (.bool true) _ => true
  | _ => false

def listToTuple : V → V
  | .list xs => .tuple xs
  | v => v
def mapTup : VL → VL
  | .nil => .nil | .cons v t => .cons (listToTuple v) (mapTup t)

def rebuildQ : VD → V
  | .cons _ _ (.cons "args" (.list args)
      (.cons "kwargs" (.dict (.cons "_connector" (.str conn) (.cons "_negated" (.bool neg) .nil))) _)) =>
      .q conn neg (mapTup args)
  | kvs => .dict kvs

mutual
def fromSig (strict : Bool) : SV → V
  | .null => .null | .int i => .int i | .str s => .str s | .bool b => .bool b
  | .list xs => .list (fromSigL strict xs) | .tuple xs => .tuple (fromSigL strict xs)
  | .dict ordered kvs =>
      if isDecon strict ordered kvs then rebuildQ (fromSigD strict kvs) else .dict (fromSigD strict kvs)
def fromSigL (strict : Bool) : SL → VL
  | .nil => .nil | .cons v t => .cons (fromSig strict v) (fromSigL strict t)
def fromSigD (strict : Bool) : SD → VD
  | .nil => .nil | .cons k v t => .cons k (fromSig strict v) (fromSigD strict t)
end

-- normal form after a JSON trip: tuples become lists, except Q children which are re-tupled
mutual
def norm : V → V
  | .tuple xs => .list (normL xs) | .list xs => .list (normL xs)
  | .dict kvs => .dict (normD kvs)
  | .q c n ch => .q c n (mapTup (normL ch))
  | v => v
def normL : VL → VL
  | .nil => .nil | .cons v t => .cons (norm v) (normL t)
def normD : VD → VD
  | .nil => .nil | .cons k v t => .cons k (norm v) (normD t)
end

def reservedHead : VD → Bool
  | .cons "_deconstructed" _ _ => true
  | _ => false

-- well-formed: plain dicts do not start with the reserved "_deconstructed" key
mutual
def WF : V → Bool
  | .list xs => WFL xs | .tuple xs => WFL xs
  | .dict kvs => (!reservedHead kvs) && WFD kvs
  | .q _ _ ch => WFL ch
  | _ => true
def WFL : VL → Bool
  | .nil => true | .cons v t => WF v && WFL t
def WFD : VD → Bool
  | .nil => true | .cons _ v t => WF v && WFD t
end

-- the round trip, for the repaired dispatch (strict = false)
mutual
theorem rt (v : V) (h : WF v = true) : fromSig false (json (toSig v)) = norm v := by
  cases v with
  | null => simp [toSig, json, fromSig, norm]
  | int i => simp [toSig, json, fromSig, norm]
  | str s => simp [toSig, json, fromSig, norm]
  | bool b => simp [toSig, json, fromSig, norm]
  | list xs => simp [toSig, json, fromSig, norm, rtL xs (by simpa [WF] using h)]
  | tuple xs => simp [toSig, json, fromSig, norm, rtL xs (by simpa [WF] using h)]
  | dict kvs =>
    have hw : WFD kvs = true := by simp [WF] at h; exact h.2
    have hk : reservedHead kvs = false := by
      simp [WF] at h; exact h.1
    have hnd : isDecon false true (jsonD (toSigD kvs)) = false := by
      cases kvs with
      | nil => simp [toSigD, jsonD, isDecon]
      | cons k v t =>
        simp only [toSigD, jsonD, isDecon]
        split
        · rename_i heq
          simp only [SD.cons.injEq] at heq
          obtain ⟨hk', _, _⟩ := heq
          subst hk'; simp [reservedHead] at hk
        · simp
    simp [toSig, json, fromSig, norm, hnd, rtD kvs hw]
  | q c n ch =>
    have := rtL ch (by simpa [WF] using h)
    simp [toSig, toSigD, toSigL, json, jsonD, jsonL, fromSig, fromSigD, fromSigL, isDecon, rebuildQ, norm, this]
theorem rtL (xs : VL) (h : WFL xs = true) : fromSigL false (jsonL (toSigL xs)) = normL xs := by
  cases xs with
  | nil => simp [toSigL, jsonL, fromSigL, normL]
  | cons v t =>
    simp [WFL] at h
    simp [toSigL, jsonL, fromSigL, normL, rt v h.1, rtL t h.2]
theorem rtD (kvs : VD) (h : WFD kvs = true) : fromSigD false (jsonD (toSigD kvs)) = normD kvs := by
  cases kvs with
  | nil => simp [toSigD, jsonD, fromSigD, normD]
  | cons k v t =>
    simp [WFD] at h
    simp [toSigD, jsonD, fromSigD, normD, rt v h.1, rtD t h.2]
end

-- today's dispatch (strict = true): a stored Q does not come back
theorem cex_strict :
    fromSig true (json (toSig (.q "AND" false (.cons (.tuple (.cons (.str "a") (.cons (.int 1) .nil))) .nil))))
      ≠ norm (.q "AND" false (.cons (.tuple (.cons (.str "a") (.cons (.int 1) .nil))) .nil)) := by
  simp [toSig, toSigL, toSigD, json, jsonL, jsonD, fromSig, fromSigL, fromSigD, isDecon, norm, normL, mapTup, listToTuple]
